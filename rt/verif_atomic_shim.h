/* Force-included into every woven translation unit (after <stdatomic.h>).
 * Each atomic operation the repository uses is preceded by an interference
 * point that receives the address being accessed; the operation itself maps to
 * the same GCC builtin the original macro expands to.  CBMC models these
 * builtins sequentially consistent and atomic. */
#ifndef VERIF_ATOMIC_SHIM_H
#define VERIF_ATOMIC_SHIM_H
#include <stdatomic.h>
#include <stdint.h>

extern void verif_point_at(int site, void* addr);
extern void verif_sync(int site);
extern void verif_resnap(int site);
extern void verif_loop_sync(int site);
/* loop-head snapshot flag: a spec TU that defines VERIF_LOOP_FLAG before including anything gets `verif_snap_valid` framed and
   pinned in every loop contract (see rt/verif_point.inc) */
#ifdef VERIF_LOOP_FLAG
extern int verif_snap_valid;
#define VERIF_LOOP_ASSIGNS verif_snap_valid,
#define VERIF_LOOP_INV (verif_snap_valid == 0)
#else
#define VERIF_LOOP_ASSIGNS
#define VERIF_LOOP_INV 1
#endif
extern void* verif_point_ret(int site, void* addr); /* runs the point, returns addr */

/* Function-style wrappers (no local declarations): CBMC type-checks the
 * operand of __typeof__ / __auto_type twice and rejects statement expressions
 * that declare variables there.  __typeof__ does not evaluate its operand, so
 * `p` is evaluated exactly once, as the argument of verif_point_ret. */
/* a call redirected by the weaver (stub_calls): the callee, defined in the same woven file, is used by contract */
#define VERIF_STUB(f) stub_##f
#define VERIF_PTR(n, p) ((__typeof__(p))verif_point_ret((n), (void*)(p)))
#define VERIF_AT(p) ((__typeof__(p))verif_point_ret(-__LINE__, (void*)(p)))
/* non-atomic read-modify-write of shared memory: operate on a shadow copy, commit after a second interference point */
extern void* verif_rmw_begin(int site, void* addr, unsigned long size);
extern void verif_rmw_commit(int site);
#define VERIF_RMW(n, p) ((__typeof__(p))verif_rmw_begin((n), (void*)(p), sizeof(*(p))))

#undef atomic_load_explicit
#define atomic_load_explicit(p, mo) __atomic_load_n(VERIF_AT(p), (mo))
#undef atomic_store_explicit
#define atomic_store_explicit(p, v, mo) __atomic_store_n(VERIF_AT(p), (v), (mo))
#undef atomic_exchange_explicit
#define atomic_exchange_explicit(p, v, mo) __atomic_exchange_n(VERIF_AT(p), (v), (mo))
#undef atomic_exchange
#define atomic_exchange(p, v) __atomic_exchange_n(VERIF_AT(p), (v), __ATOMIC_SEQ_CST)
#undef atomic_fetch_add_explicit
#define atomic_fetch_add_explicit(p, v, mo) __atomic_fetch_add(VERIF_AT(p), (v), (mo))
#undef atomic_fetch_add
#define atomic_fetch_add(p, v) __atomic_fetch_add(VERIF_AT(p), (v), __ATOMIC_SEQ_CST)
#undef atomic_fetch_sub
#define atomic_fetch_sub(p, v) __atomic_fetch_sub(VERIF_AT(p), (v), __ATOMIC_SEQ_CST)
#undef atomic_fetch_or
#define atomic_fetch_or(p, v) __atomic_fetch_or(VERIF_AT(p), (v), __ATOMIC_SEQ_CST)
#undef atomic_fetch_and
#define atomic_fetch_and(p, v) __atomic_fetch_and(VERIF_AT(p), (v), __ATOMIC_SEQ_CST)
/* compare-exchange: `weak` is modelled strong (x86 lock cmpxchg; assumption A3) */
#undef atomic_compare_exchange_weak_explicit
#define atomic_compare_exchange_weak_explicit(p, e, d, s, f) \
  __atomic_compare_exchange_n(VERIF_AT(p), (e), (d), 0, (s), (f))
#undef atomic_compare_exchange_strong_explicit
#define atomic_compare_exchange_strong_explicit(p, e, d, s, f) \
  __atomic_compare_exchange_n(VERIF_AT(p), (e), (d), 0, (s), (f))
#undef atomic_compare_exchange_weak
#define atomic_compare_exchange_weak(p, e, d) \
  __atomic_compare_exchange_n(VERIF_AT(p), (e), (d), 0, __ATOMIC_SEQ_CST, __ATOMIC_SEQ_CST)
#undef atomic_compare_exchange_strong
#define atomic_compare_exchange_strong(p, e, d) \
  __atomic_compare_exchange_n(VERIF_AT(p), (e), (d), 0, __ATOMIC_SEQ_CST, __ATOMIC_SEQ_CST)

#define VERIF_CAT_(a, b) a##b
#define VERIF_CAT(a, b) VERIF_CAT_(a, b)
#define __sync_bool_compare_and_swap(p, o, n) VERIF_SCAS_(p, o, n, VERIF_CAT(verif_so_, __COUNTER__))
#define VERIF_SCAS_(p, o, n, so) \
  ({ __typeof__(*(p)) so = (o); \
     __atomic_compare_exchange_n(VERIF_AT(p), &so, (n), 0, __ATOMIC_SEQ_CST, __ATOMIC_SEQ_CST); })
#define __sync_add_and_fetch(p, v) __atomic_add_fetch(VERIF_AT(p), (v), __ATOMIC_SEQ_CST)
#define __sync_sub_and_fetch(p, v) __atomic_sub_fetch(VERIF_AT(p), (v), __ATOMIC_SEQ_CST)

/* operations the pinned tree does not use but an edit might introduce */
#undef atomic_load
#define atomic_load(p) __atomic_load_n(VERIF_AT(p), __ATOMIC_SEQ_CST)
#undef atomic_store
#define atomic_store(p, v) __atomic_store_n(VERIF_AT(p), (v), __ATOMIC_SEQ_CST)
#undef atomic_fetch_sub_explicit
#define atomic_fetch_sub_explicit(p, v, mo) __atomic_fetch_sub(VERIF_AT(p), (v), (mo))
#undef atomic_fetch_or_explicit
#define atomic_fetch_or_explicit(p, v, mo) __atomic_fetch_or(VERIF_AT(p), (v), (mo))
#undef atomic_fetch_and_explicit
#define atomic_fetch_and_explicit(p, v, mo) __atomic_fetch_and(VERIF_AT(p), (v), (mo))
#undef atomic_fetch_xor
#define atomic_fetch_xor(p, v) __atomic_fetch_xor(VERIF_AT(p), (v), __ATOMIC_SEQ_CST)
#undef atomic_fetch_xor_explicit
#define atomic_fetch_xor_explicit(p, v, mo) __atomic_fetch_xor(VERIF_AT(p), (v), (mo))
#define __sync_fetch_and_add(p, v) __atomic_fetch_add(VERIF_AT(p), (v), __ATOMIC_SEQ_CST)
#define __sync_fetch_and_sub(p, v) __atomic_fetch_sub(VERIF_AT(p), (v), __ATOMIC_SEQ_CST)
#define __sync_fetch_and_or(p, v) __atomic_fetch_or(VERIF_AT(p), (v), __ATOMIC_SEQ_CST)
#define __sync_fetch_and_and(p, v) __atomic_fetch_and(VERIF_AT(p), (v), __ATOMIC_SEQ_CST)
#define __sync_fetch_and_xor(p, v) __atomic_fetch_xor(VERIF_AT(p), (v), __ATOMIC_SEQ_CST)
#define __sync_or_and_fetch(p, v) __atomic_or_fetch(VERIF_AT(p), (v), __ATOMIC_SEQ_CST)
#define __sync_and_and_fetch(p, v) __atomic_and_fetch(VERIF_AT(p), (v), __ATOMIC_SEQ_CST)
#define __sync_lock_test_and_set(p, v) __atomic_exchange_n(VERIF_AT(p), (v), __ATOMIC_SEQ_CST)
#define __sync_lock_release(p) __atomic_store_n(VERIF_AT(p), 0, __ATOMIC_SEQ_CST)
#define __sync_val_compare_and_swap(p, o, n) VERIF_VCAS_(p, o, n, VERIF_CAT(verif_so_, __COUNTER__))
#define VERIF_VCAS_(p, o, n, so) \
  ({ __typeof__(*(p)) so = (o); \
     __atomic_compare_exchange_n(VERIF_AT(p), &so, (n), 0, __ATOMIC_SEQ_CST, __ATOMIC_SEQ_CST); so; })
#define __sync_synchronize() __atomic_thread_fence(__ATOMIC_SEQ_CST)
#undef atomic_thread_fence
#define atomic_thread_fence(mo) __atomic_thread_fence(mo)

#endif
