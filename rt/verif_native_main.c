/* native replay driver: loads the counterexample tape and runs one harness */
#include <stdint.h>
#include <stdio.h>
#include <stdlib.h>
uint64_t verif_tape[1 << 16];
unsigned verif_tape_len, verif_tape_pos;
extern void VERIF_HARNESS(void);
int main(int argc, char** argv) {
  if (argc < 2) { fprintf(stderr, "usage: %s tape.txt\n", argv[0]); return 2; }
  FILE* f = fopen(argv[1], "r");
  if (!f) { perror("tape"); return 2; }
  unsigned long long v;
  while (verif_tape_len < (1 << 16) && fscanf(f, "%llu", &v) == 1) verif_tape[verif_tape_len++] = v;
  fclose(f);
  VERIF_HARNESS();
  printf("NOT-REPRODUCED: harness ran to completion\n");
  return 0;
}
