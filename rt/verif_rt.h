/* Generic runtime for the spec translation units (DESIGN.md 3.2).
 * Same source for CBMC (default) and native replay (-DVERIF_NATIVE). */
#ifndef VERIF_RT_H
#define VERIF_RT_H
#include <stdint.h>
#include <stddef.h>

#ifdef VERIF_NATIVE
#include <stdio.h>
#include <stdlib.h>
extern uint64_t verif_tape[];
extern unsigned verif_tape_len, verif_tape_pos;
static inline uint64_t verif_u64(void) {
  if (verif_tape_pos >= verif_tape_len) { printf("REPLAY-INVALID: tape exhausted\n"); exit(3); }
  return verif_tape[verif_tape_pos++];
}
#define VASSUME(c) do { if (!(c)) { printf("REPLAY-INVALID: assumption `%s` does not hold at %s:%d\n", #c, __FILE__, __LINE__); exit(3); } } while (0)
#define VASSERT(c, tag) do { if (!(c)) { printf("REPRODUCED: %s\n", tag); exit(1); } } while (0)
#define VCANARY(tag) do { printf("NOT-REPRODUCED: reached %s\n", tag); } while (0)
#define __CPROVER_loop_invariant(...)
#define __CPROVER_assigns(...)
#define __CPROVER_decreases(...)
#define __CPROVER_requires(...)
#define __CPROVER_ensures(...)
#define __CPROVER_same_object(a, b) 1   /* only ever a guard in front of an address-range comparison */
/* addr points into the object that starts at base and is `bytes` long */
#define VERIF_IN_OBJECT(addr, base, bytes) ((uintptr_t)(addr) - (uintptr_t)(base) < (uintptr_t)(bytes))
#else
#define VERIF_IN_OBJECT(addr, base, bytes) (__CPROVER_same_object((addr), (base)))
uint64_t nondet_u64(void);
/* every hand-written nondeterministic choice goes through this function so
 * that a counterexample trace lists them in program order (tools/prove.py
 * collects the assignments to `verif_tape_v`) */
static inline uint64_t verif_u64(void) { uint64_t verif_tape_v = nondet_u64(); return verif_tape_v; }
#define VASSUME(c) __CPROVER_assume(c)
#define VASSERT(c, tag) __CPROVER_assert((c), tag)
/* must be reported FAILED: shows the place is reachable under all assumptions */
#define VCANARY(tag) __CPROVER_assert(0, "canary: " tag)
#endif

/* shadow copy for non-atomic read-modify-write statements (tools/weave.py); defined in verif_point.inc */
struct verif_rmw_s { unsigned char buf[8] __attribute__((aligned(8))); void* addr; unsigned long size; };
extern struct verif_rmw_s verif_rmw;

static inline uint32_t verif_u32(void) { return (uint32_t)(verif_u64() & 0xFFFFFFFFull); }
static inline int verif_bool(void) { return (int)(verif_u64() & 1); }
/* choose k in [0, n) */
static inline unsigned verif_pick(unsigned n) { unsigned k = (unsigned)(verif_u64() & 0xFFFFFFFFull); VASSUME(k < n); return k; }
static inline int verif_int(void) { union { uint32_t u; int i; } c; c.u = verif_u32(); return c.i; }

#endif
