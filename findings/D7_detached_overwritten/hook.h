// Force-included (gcc -include hook.h) in front of src/fiber.c ONLY.
//
// It re-defines the three C11 read-modify-write macros that fiber.c uses on
// fiber_t::detach_state (atomic_exchange in the unmodified tree,
// atomic_compare_exchange_weak/strong in the repaired tree) so that
//   d7_hook_pre()  is called right BEFORE the real atomic operation and
//   d7_hook_post() right AFTER it (only if d7_hook_pre returned non-zero).
// The real operation is performed unchanged (same object, same operands, same
// memory order, same result). The callbacks live in demo.c; they never write to
// library data, they only hold the calling kernel thread in a spin loop at this
// point (so that a fiber on ANOTHER kernel thread can run fiber_detach exactly
// in the window between the caller's look at detach_state and its
// read-modify-write) and report what the operation observed.
//
// The library sources are not modified.

#ifndef D7_HOOK_H
#define D7_HOOK_H

#include <stdatomic.h>

#define D7_KIND_XCHG 1
#define D7_KIND_CAS_WEAK 2
#define D7_KIND_CAS_STRONG 3

// returns 0 if the object is of no interest (then d7_hook_post is not called)
extern int d7_hook_pre(const volatile void* object, int kind, const char* func);
// 'observed' = the value the operation found in the object (exchange: the
// returned old value; compare-exchange: *expected after the operation),
// 'succeeded' = result of a compare-exchange (always 1 for an exchange)
extern void d7_hook_post(int token, int kind, int observed, int succeeded,
                         const char* func);

#undef atomic_exchange
#define atomic_exchange(PTR, VAL)                                             \
  __extension__({                                                             \
    __auto_type d7_xp = (PTR);                                                \
    const int d7_xt =                                                         \
        d7_hook_pre((const volatile void*)d7_xp, D7_KIND_XCHG, __func__);     \
    __auto_type d7_xr =                                                       \
        atomic_exchange_explicit(d7_xp, (VAL), memory_order_seq_cst);         \
    if (d7_xt) {                                                              \
      d7_hook_post(d7_xt, D7_KIND_XCHG, *(const int*)(const void*)&d7_xr, 1,  \
                   __func__);                                                 \
    }                                                                         \
    d7_xr;                                                                    \
  })

#define D7_CAS(KIND, REAL, PTR, EXP, DES)                                     \
  __extension__({                                                             \
    __auto_type d7_cp = (PTR);                                                \
    __auto_type d7_ce = (EXP);                                                \
    const int d7_ct = d7_hook_pre((const volatile void*)d7_cp, KIND, __func__); \
    const _Bool d7_cr = REAL(d7_cp, d7_ce, (DES), memory_order_seq_cst,       \
                             memory_order_seq_cst);                           \
    if (d7_ct) {                                                              \
      d7_hook_post(d7_ct, KIND, *(const int*)(const void*)d7_ce, d7_cr,       \
                   __func__);                                                 \
    }                                                                         \
    d7_cr;                                                                    \
  })

#undef atomic_compare_exchange_weak
#define atomic_compare_exchange_weak(PTR, EXP, DES)                           \
  D7_CAS(D7_KIND_CAS_WEAK, atomic_compare_exchange_weak_explicit, PTR, EXP, DES)

#undef atomic_compare_exchange_strong
#define atomic_compare_exchange_strong(PTR, EXP, DES)                         \
  D7_CAS(D7_KIND_CAS_STRONG, atomic_compare_exchange_strong_explicit, PTR, EXP, \
         DES)

#endif
