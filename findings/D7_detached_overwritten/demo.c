// Witness for D7: "DETACHED is not final" - fiber_mark_completed(), fiber_join()
// and fiber_tryjoin() (src/fiber.c) look at fiber_t::detach_state and then
// overwrite it with a blind atomic_exchange; a fiber_detach() that lands between
// the look and the exchange is lost.
//
// Build + run through run.sh. The library's own sources are compiled
// unmodified; src/fiber.c is compiled with "-include hook.h", which calls
// d7_hook_pre()/d7_hook_post() (below) immediately before/after every
// atomic_exchange / atomic_compare_exchange_{weak,strong} of that file, and a
// few symbols are interposed with -Wl,--wrap= for OBSERVATION only
// (fiber_manager_clear_or_wait, free). Nothing here writes to library data; the
// hooks only hold a kernel thread in a spin loop at a chosen point.
//
//   demo a   finisher vs detach  (fiber_mark_completed is the party in the window)
//   demo b   joiner   vs detach  (fiber_join is the party in the window)
//
// exit 0: behaviour as documented   (expected with fix.diff applied)
// exit 1: violation observed        (expected on the unmodified tree)
// exit 3: inconclusive: the scripted schedule did not materialise / watchdog
//
// Cast (2 kernel threads: T0 = main thread, T1 = fiber_manager_init's worker):
//   M  main fiber, T0. Sets everything up, then parks in fiber_join(D).
//   D  "detacher", a fiber that T1 steals and that never leaves T1 (it never
//      yields): waits for the window, calls fiber_detach(F), then observes.
//   F  the target fiber, runs on T0.
//   J  (scenario b only) the joiner, runs on T0: fiber_join(F).
//
// Scenario a:  F's function returns -> fiber_mark_completed(F): looks at
//   detach_state (NONE), and right before its read-modify-write the hook holds
//   T0; D (T1) runs fiber_detach(F) [finds NONE -> nothing more to do, returns
//   FIBER_SUCCESS]; F is released, performs its read-modify-write and is held
//   again right after it (F is alive, not yet DONE, not yet reclaimed). D reads
//   F->detach_state and calls fiber_tryjoin(F, &res).
//     documented:  F->detach_state == DETACHED, tryjoin returns FIBER_ERROR,
//                  and after F is released it completes and is reclaimed.
//     defect:      F->detach_state == WAIT_FOR_JOINER; tryjoin takes the
//                  success path (copies F->result) and enters
//                  fiber_manager_clear_or_wait(&F->join_info) where it spins
//                  for ever: F's own exchange returned DETACHED, so F never
//                  parks there.
//
// Scenario b:  J calls fiber_join(F) while F is still running: the pre-check
//   "detach_state == DETACHED" passes (NONE), and right before J's
//   read-modify-write the hook holds T0; D (T1) runs fiber_detach(F) [finds
//   NONE, returns FIBER_SUCCESS]; J is released, fiber_join returns FIBER_ERROR
//   (documented, in both trees). Then F's function returns.
//     documented:  F completes (state DONE, handed to its manager as done_fiber)
//                  and is reclaimed (free(F)).
//     defect:      J left WAIT_TO_JOIN behind; fiber_mark_completed(F) believes
//                  a joiner is parked, calls
//                  fiber_manager_clear_or_wait(&F->join_info) and spins there
//                  for ever: the detached fiber never completes and is never
//                  reclaimed.

#define _GNU_SOURCE
#include <sched.h>
#include <signal.h>
#include <stdarg.h>
#include <stdatomic.h>
#include <stdint.h>
#include <stdio.h>
#include <string.h>
#include <sys/syscall.h>
#include <time.h>
#include <unistd.h>

#include "fiber_manager.h"

#define STACK_SIZE (256 * 1024)
#define WATCHDOG_SECONDS 20
#define STUCK_OBSERVATION_MS 300  // how long a spinning clear_or_wait is watched
#define RECLAIM_WAIT_MS 5000

#define D7_KIND_XCHG 1
#define D7_KIND_CAS_WEAK 2
#define D7_KIND_CAS_STRONG 3

// ---------------------------------------------------------------- utilities

static atomic_int log_seq;

// raw write(2): the library interposes write()/usleep()/nanosleep()/...; keep
// clear of those from inside hooks and wrappers.
static void say(const char* fmt, ...) {
  char buf[512];
  int n = snprintf(buf, sizeof(buf), "[%03d] ", atomic_fetch_add(&log_seq, 1));
  va_list ap;
  va_start(ap, fmt);
  n += vsnprintf(buf + n, sizeof(buf) - n - 1, fmt, ap);
  va_end(ap);
  if (n > (int)sizeof(buf) - 2) n = sizeof(buf) - 2;
  buf[n++] = '\n';
  syscall(SYS_write, 2, buf, (size_t)n);
}

static long now_ms(void) {
  struct timespec ts;
  clock_gettime(CLOCK_MONOTONIC, &ts);
  return ts.tv_sec * 1000L + ts.tv_nsec / 1000000L;
}

static atomic_int finished;

static void finish(int code, const char* what) {
  if (atomic_exchange(&finished, 1)) {
    for (;;) sched_yield();  // somebody else is already terminating
  }
  say("RESULT: %s (exit %d)", what, code);
  _exit(code);
}

static void on_alarm(int sig) {
  (void)sig;
  static const char msg[] =
      "RESULT: watchdog - scripted schedule did not materialise (exit 3)\n";
  syscall(SYS_write, 2, msg, sizeof(msg) - 1);
  _exit(3);
}

#define WAIT_FOR(cond)            \
  do {                            \
    while (!(cond)) sched_yield(); \
  } while (0)

static int my_thread(void) {
  fiber_manager_t* const m = fiber_manager_get();
  return m ? m->id : -1;
}

static const char* state_name(int s) {
  switch (s) {
    case FIBER_DETACH_NONE: return "NONE";
    case FIBER_DETACH_WAIT_FOR_JOINER: return "WAIT_FOR_JOINER";
    case FIBER_DETACH_WAIT_TO_JOIN: return "WAIT_TO_JOIN";
    case FIBER_DETACH_DETACHED: return "DETACHED";
    default: return "?";
  }
}

static const char* kind_name(int k) {
  return k == D7_KIND_XCHG       ? "atomic_exchange"
         : k == D7_KIND_CAS_WEAK ? "atomic_compare_exchange_weak"
                                 : "atomic_compare_exchange_strong";
}

// ------------------------------------------------------------------- script

static char scenario;                 // 'a' or 'b'
static const char* windowed_function; // library function whose window is used
static fiber_t* volatile F;           // the target fiber
static volatile uintptr_t F_addr;     // its address, for the free() observer

static atomic_int armed;          // the next RMW of windowed_function on F opens the window
static atomic_int window_open;    // party is held between its look and its RMW
static atomic_int detach_done;    // fiber_detach(F) has returned on T1
static atomic_int rmw_done;       // the party's RMW has been performed
static atomic_int rmw_observed = -1;
static atomic_int release_hold;   // (a) F may continue after its RMW
static atomic_int tryjoin_in_cow; // (a) tryjoin entered clear_or_wait(&F->join_info)
static atomic_int tryjoin_returned;
static atomic_int finisher_in_cow; // (b) F's mark_completed entered clear_or_wait
static atomic_int f_reclaimed;     // free(F) was called
static atomic_int d_running;
static atomic_int release_f;       // (b) F's function may return
static atomic_int join_ret = -2;

// ------------------------------------------- hooks called from src/fiber.c

int d7_hook_pre(const volatile void* object, int kind, const char* func) {
  fiber_t* const f = F;
  if (!f || object != (const volatile void*)&f->detach_state) {
    return 0;
  }
  say("  T%d %s(F): about to %s detach_state, which is now %s", my_thread(),
      func, kind_name(kind), state_name(f->detach_state));
  int expected = 1;
  if (strcmp(func, windowed_function) != 0 ||
      !atomic_compare_exchange_strong(&armed, &expected, 0)) {
    return 2;  // just report the outcome
  }
  // The party has looked at detach_state and not performed its
  // read-modify-write yet: hold this kernel thread until fiber_detach(F) has
  // run to completion on the other one.
  say("  T%d %s(F): HELD between its look at detach_state and its "
      "read-modify-write",
      my_thread(), func);
  atomic_store(&window_open, 1);
  WAIT_FOR(atomic_load(&detach_done));
  say("  T%d %s(F): released, performs its read-modify-write now (detach_state "
      "is %s)",
      my_thread(), func, state_name(f->detach_state));
  return 1;
}

void d7_hook_post(int token, int kind, int observed, int succeeded,
                  const char* func) {
  fiber_t* const f = F;
  if (kind == D7_KIND_XCHG) {
    say("  T%d %s(F): atomic_exchange returned %s; detach_state is now %s",
        my_thread(), func, state_name(observed), state_name(f->detach_state));
  } else {
    say("  T%d %s(F): %s %s, it found %s; detach_state is now %s", my_thread(),
        func, kind_name(kind), succeeded ? "succeeded" : "failed",
        state_name(observed), state_name(f->detach_state));
  }
  if (token != 1) {
    return;
  }
  atomic_store(&rmw_observed, observed);
  atomic_store(&rmw_done, 1);
  if (scenario != 'a') {
    return;
  }
  // Scenario a: keep the finishing fiber alive (it is past its
  // read-modify-write, not yet DONE, not yet reclaimed) while D looks at it
  // and calls fiber_tryjoin(F). While holding, watch for the hang.
  say("  T%d %s(F): HELD right after its read-modify-write (F stays alive)",
      my_thread(), func);
  while (!atomic_load(&release_hold)) {
    if (atomic_load(&tryjoin_in_cow)) {
      const long t0 = now_ms();
      while (now_ms() - t0 < STUCK_OBSERVATION_MS) sched_yield();
      if (!atomic_load(&tryjoin_returned) && f->join_info == NULL) {
        say("VIOLATION (a): fiber_detach(F) returned FIBER_SUCCESS, yet "
            "fiber_tryjoin(F) took the success path and has been spinning in "
            "fiber_manager_clear_or_wait(&F->join_info) for %d ms; the mailbox "
            "is empty and stays empty: F's own exchange returned DETACHED, so "
            "F does not park",
            STUCK_OBSERVATION_MS);
        finish(1, "scenario a: a detached fiber looks joinable, tryjoin hangs");
      }
    }
    sched_yield();
  }
}

// ------------------------------------------------- observers (-Wl,--wrap=)

extern void* __real_fiber_manager_clear_or_wait(fiber_manager_t* manager,
                                                _Atomic(void*)* location);

void* __wrap_fiber_manager_clear_or_wait(fiber_manager_t* manager,
                                         _Atomic(void*)* location) {
  fiber_t* const f = F;
  if (f && (void*)location == (void*)&f->join_info) {
    const int self = (manager->current_fiber == f);
    say("  T%d fiber_manager_clear_or_wait(&F->join_info) entered by %s; "
        "F->join_info = %p, F->detach_state = %s",
        my_thread(), self ? "F itself (fiber_mark_completed)" : "another fiber",
        (void*)f->join_info, state_name(f->detach_state));
    if (scenario == 'a' && !self) {
      atomic_store(&tryjoin_in_cow, 1);
    } else if (scenario == 'b' && self) {
      atomic_store(&finisher_in_cow, 1);
    }
  }
  return __real_fiber_manager_clear_or_wait(manager, location);
}

extern void __real_free(void* p);

void __wrap_free(void* p) {
  if (p && (uintptr_t)p == F_addr && !atomic_load(&f_reclaimed)) {
    say("  T%d free(F): the fiber is reclaimed", my_thread());
    atomic_store(&f_reclaimed, 1);
  }
  __real_free(p);
}

// ------------------------------------------------------------------- fibers

static void wait_reclaimed_and_finish(const char* ok_text) {
  const long t0 = now_ms();
  while (!atomic_load(&f_reclaimed)) {
    if (now_ms() - t0 > RECLAIM_WAIT_MS) {
      finish(3, "F was not reclaimed within the waiting time (inconclusive)");
    }
    sched_yield();
  }
  finish(0, ok_text);
}

static void* target_fn(void* p) {
  (void)p;
  if (scenario == 'b') {
    // keep running until the joiner is done with us
    while (!atomic_load(&release_f)) fiber_yield();
  }
  say("T%d F: function returns", my_thread());
  return (void*)0x1234;
}

static void* joiner_fn(void* p) {
  (void)p;
  void* res = NULL;
  say("T%d J: fiber_join(F) ...", my_thread());
  const int r = fiber_join(F, &res);
  say("T%d J: fiber_join(F) returned %s, F->detach_state = %s", my_thread(),
      r == FIBER_SUCCESS ? "FIBER_SUCCESS" : "FIBER_ERROR",
      state_name(F->detach_state));
  atomic_store(&join_ret, r);
  atomic_store(&release_f, 1);
  return NULL;
}

static void* detacher_fn(void* p) {
  (void)p;
  say("T%d D: running (stolen by T%d), waiting for the window", my_thread(),
      my_thread());
  atomic_store(&d_running, 1);

  WAIT_FOR(atomic_load(&window_open));
  fiber_t* const f = F;
  const int dr = fiber_detach(f);
  say("T%d D: fiber_detach(F) returned %s; F->detach_state = %s", my_thread(),
      dr == FIBER_SUCCESS ? "FIBER_SUCCESS" : "FIBER_ERROR",
      state_name(f->detach_state));
  if (dr != FIBER_SUCCESS) {
    finish(3, "fiber_detach did not succeed");
  }
  atomic_store(&detach_done, 1);

  if (scenario == 'a') {
    WAIT_FOR(atomic_load(&rmw_done));  // F is held right after its RMW
    const int ds = f->detach_state;
    say("T%d D: F was detached and is finishing; F->detach_state = %s "
        "(documented: DETACHED)",
        my_thread(), state_name(ds));
    void* res = (void*)1;
    say("T%d D: fiber_tryjoin(F) ...", my_thread());
    const int r = fiber_tryjoin(f, &res);  // hangs on the unmodified tree
    atomic_store(&tryjoin_returned, 1);
    say("T%d D: fiber_tryjoin(F) returned %s, result %p", my_thread(),
        r == FIBER_SUCCESS ? "FIBER_SUCCESS" : "FIBER_ERROR", res);
    if (r != FIBER_ERROR || ds != FIBER_DETACH_DETACHED) {
      finish(1, "scenario a: a detached fiber looks joinable");
    }
    atomic_store(&release_hold, 1);
    wait_reclaimed_and_finish(
        "scenario a: DETACHED survived, tryjoin failed with FIBER_ERROR, F "
        "completed and was reclaimed");
  }

  // scenario b: wait for J's join to return and for F to finish
  WAIT_FOR(atomic_load(&join_ret) != -2);
  if (atomic_load(&join_ret) != FIBER_ERROR) {
    finish(1, "scenario b: joining a detached fiber did not fail");
  }
  const long t0 = now_ms();
  for (;;) {
    if (atomic_load(&f_reclaimed)) {
      finish(0,
             "scenario b: join failed with FIBER_ERROR, the detached fiber "
             "completed and was reclaimed");
    }
    if (atomic_load(&finisher_in_cow)) {
      const long t1 = now_ms();
      while (now_ms() - t1 < STUCK_OBSERVATION_MS) sched_yield();
      if (!atomic_load(&f_reclaimed) && f->state != FIBER_STATE_DONE &&
          f->join_info == NULL) {
        say("VIOLATION (b): the detached fiber F has been spinning in "
            "fiber_manager_clear_or_wait(&F->join_info) inside "
            "fiber_mark_completed for %d ms: F->state = %d (not DONE), "
            "join_info = NULL, no joiner exists (fiber_join returned "
            "FIBER_ERROR), F->detach_state = %s",
            STUCK_OBSERVATION_MS, f->state, state_name(f->detach_state));
        finish(1,
               "scenario b: the detached fiber never completes and is never "
               "reclaimed");
      }
    }
    if (now_ms() - t0 > RECLAIM_WAIT_MS) {
      finish(3, "F neither completed nor got stuck (inconclusive)");
    }
    sched_yield();
  }
  return NULL;
}

int main(int argc, char** argv) {
  scenario = (argc > 1) ? argv[1][0] : 'a';
  if (scenario != 'a' && scenario != 'b') {
    fprintf(stderr, "usage: %s a|b\n", argv[0]);
    return 3;
  }
  windowed_function = (scenario == 'a') ? "fiber_mark_completed" : "fiber_join";

  fiber_manager_init(2);
  // after fiber_manager_init: it calls splitstack_disable_block_signals()
  signal(SIGALRM, on_alarm);
  alarm(WATCHDOG_SECONDS);

  say("scenario %c: %s", scenario,
      scenario == 'a' ? "finisher (fiber_mark_completed) vs fiber_detach"
                      : "joiner (fiber_join) vs fiber_detach");

  // M keeps T0 busy (no fiber yield) until idle T1 has stolen D; D never
  // yields, so from here on T1 runs D only and T0 runs everything else.
  fiber_t* const d = fiber_create(STACK_SIZE, detacher_fn, NULL);
  WAIT_FOR(atomic_load(&d_running));

  fiber_t* const f = fiber_create(STACK_SIZE, target_fn, NULL);
  F_addr = (uintptr_t)f;
  F = f;
  atomic_store(&armed, 1);
  if (scenario == 'b') {
    fiber_t* const j = fiber_create(STACK_SIZE, joiner_fn, NULL);
    fiber_detach(j);  // nobody joins J
  }
  say("T%d M: F created (detach_state = %s); parking in fiber_join(D)",
      my_thread(), state_name(f->detach_state));
  fiber_join(d, NULL);  // parks M; T0 now runs F (and J)
  finish(3, "M resumed unexpectedly");
  return 3;
}
