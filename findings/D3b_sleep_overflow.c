/* Native witness for D3b (C09): fiber_sleep(4294968, 0) must sleep ~49.7 days.  With seconds*1000 computed in 32 bits it
 * sleeps 705 ticks (3.5 s).  exit 0 = still asleep after 8 s, 1 = woke early. */
#include <stdio.h>
#include <unistd.h>
#include <signal.h>
#include "fiber_manager.h"
#include "fiber_event.h"
static void on_alarm(int s) { const char m[] = "ok: still asleep after 8 s\n"; write(1, m, sizeof m - 1); _exit(0); }
int main(void) {
  fiber_manager_init(1);
  signal(SIGALRM, on_alarm); alarm(8);
  fiber_sleep(4294968u, 0);
  printf("VIOLATION: fiber_sleep(4294968 s) returned after a few seconds\n");
  return 1;
}
