/* Native witness for D2b (C08): after fcntl(fd, F_SETFL, O_NONBLOCK) a read on an empty socket must return -1/EAGAIN at once.
 * exit 0 = returned immediately with EAGAIN, 1 = blocked (watchdog) or wrong result */
#include <stdio.h>
#include <fcntl.h>
#include <errno.h>
#include <unistd.h>
#include <signal.h>
#include <sys/socket.h>
#include "fiber_manager.h"
static void on_alarm(int s) { const char m[] = "VIOLATION: read on an O_NONBLOCK descriptor blocked\n"; write(1, m, sizeof m - 1); _exit(1); }
int main(void) {
  fiber_manager_init(1);
  int sv[2];
  if (socketpair(AF_UNIX, SOCK_STREAM, 0, sv)) { perror("socketpair"); return 2; }
  if (fcntl(sv[0], F_SETFL, O_NONBLOCK)) { perror("fcntl"); return 2; }
  signal(SIGALRM, on_alarm); alarm(3);
  char c; errno = 0;
  ssize_t r = read(sv[0], &c, 1);
  printf("read = %zd errno=%d\n", r, errno);
  if (!(r == -1 && (errno == EAGAIN || errno == EWOULDBLOCK))) { printf("VIOLATION: unexpected result\n"); return 1; }
  printf("ok\n"); return 0;
}
