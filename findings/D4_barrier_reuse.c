/* Native witness for finding D4 (C12): immediate reuse of a fiber barrier with count >= 3.
 * N fibers (N == count) loop over rounds; before entering round r each increments entered[r]; after returning from its
 * r-th fiber_barrier_wait each checks that all N had entered round r.  On the pinned tree this fails within a few thousand
 * rounds on >= 2 kernel threads: the serial fiber of round r pops the round-(r+1) entry of a fiber it has just released.
 * build: gcc -O2 -std=gnu11 -DFIBER_STACK_SPLIT -fsplit-stack -I /repo/include D4_barrier_reuse.c /repo/_build/libfiber.a -lpthread -ldl
 * exit 0 = property held for all rounds, 1 = violation observed. */
#include <stdio.h>
#include <stdlib.h>
#include <stdatomic.h>
#include "fiber_manager.h"
#include "fiber_barrier.h"
#include "fiber_event.h"
static _Atomic int finished;
#ifndef N
#define N 16
#endif
#define ROUNDS 100000
static fiber_barrier_t barrier;
static _Atomic int entered[ROUNDS + 1];
static _Atomic int bad_round = -1, bad_seen;
static void* run(void* p) {
  for (int r = 0; r < ROUNDS && bad_round < 0; r++) {
    atomic_fetch_add(&entered[r], 1);
    fiber_barrier_wait(&barrier);
    int e = atomic_load(&entered[r]);
    if (e != N) { int exp = -1; if (atomic_compare_exchange_strong(&bad_round, &exp, r)) bad_seen = e; break; }
  }
  atomic_fetch_add(&finished, 1);
  return NULL;
}
int main(void) {
  fiber_manager_init(4);
  fiber_barrier_init(&barrier, N);
  fiber_t* f[N];
  for (int i = 0; i < N; i++) f[i] = fiber_create(65536, &run, NULL);
  /* do not join: on a violation the other fibers stay blocked in the barrier */
  int t;
  for (t = 0; t < 3000 && bad_round < 0 && finished < N; t++) fiber_sleep(0, 10000);
  if (bad_round >= 0) { printf("VIOLATION: a fiber returned from round %d of the barrier when only %d of %d fibers had entered it\n", bad_round, bad_seen, N); return 1; }
  if (finished < N) { printf("VIOLATION: fibers stuck in the barrier (finished %d of %d)\n", finished, N); return 1; }
  printf("held for %d rounds\n", ROUNDS);
  return 0;
}
