#!/bin/bash
# usage: run.sh <libfiber tree>; exit 0 = property held, 1 = violation observed, 2 = build failure
t=${1:-/repo}; d=$(mktemp -d)
gcc -std=gnu11 -O1 -w -I$t/include $(dirname $0)/demo.c -o $d/demo || { rm -rf $d; exit 2; }
$d/demo; rc=$?; rm -rf $d; exit $rc
