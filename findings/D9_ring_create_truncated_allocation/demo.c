/* D9 (C16): lockfree_ring_buffer_create(k) computes the allocation size in 32 bits: for k = 29, 30, 31 the size wraps and the "2^k slot" ring is
 * backed by a 136-byte object (header only) - every push then writes outside the allocation.  (k = 31 additionally shifts a signed 1 by 31: UB.)
 * Exit 1 when a returned ring is smaller than its own size claims, 0 otherwise (a NULL return - the honest outcome when 4 GiB+ cannot be had - is fine). */
#include <stdio.h>
#include <malloc.h>
#include "lockfree_ring_buffer.h"
int main(void) {
  int bad = 0;
  for (uint32_t k = 1; k < 32; k++) {
    if (k > 24 && k < 29) continue;   /* nothing special there, and the honest allocations are big */
    lockfree_ring_buffer_t* rb = lockfree_ring_buffer_create(k);
    if (!rb) { printf("k=%u: NULL (allocation refused)\n", k); continue; }
    size_t need = sizeof(*rb) + (size_t)rb->size * sizeof(void*), have = malloc_usable_size(rb);
    printf("k=%u: size=%u needs %zu bytes, allocation has %zu%s\n", k, rb->size, need, have, have < need ? "   <-- TOO SMALL" : "");
    if (have < need) bad = 1;
    free(rb);
  }
  return bad;
}
