/* D10 (C11): fiber_bounded_channel_create(k, s) computes the allocation size in 32 bits: for k = 29, 30, 31 (admitted by its own assert) the size
 * wraps to the bare header - a channel claiming 2^k slots is backed by none, every send/receive touches memory outside the allocation.
 * Exit 1 when a returned channel is smaller than its own size claims, 0 otherwise (NULL - allocation refused - is fine). */
#include <stdio.h>
#include <malloc.h>
#include "fiber_channel.h"
int main(void) {
  int bad = 0; fiber_signal_t s; fiber_signal_init(&s);
  uint32_t ks[] = {1, 10, 20, 29, 30, 31};
  for (unsigned i = 0; i < sizeof(ks) / sizeof(ks[0]); i++) {
    fiber_bounded_channel_t* c = fiber_bounded_channel_create(ks[i], &s);
    if (!c) { printf("k=%u: NULL (allocation refused)\n", ks[i]); continue; }
    size_t need = sizeof(*c) + (size_t)c->size * sizeof(void*), have = malloc_usable_size(c);
    printf("k=%u: size=%u needs %zu bytes, allocation has %zu%s\n", ks[i], c->size, need, have, have < need ? "   <-- TOO SMALL" : "");
    if (have < need) bad = 1;
    free(c);
  }
  return bad;
}
