// Witness for D8: fiber_mark_completed() (src/fiber.c), finishing a fiber F that
// already has a joiner J1 parked in F->join_info (detach_state WAIT_TO_JOIN),
// first announces detach_state = WAIT_FOR_JOINER ("the finished fiber is parked
// in join_info, come and join it") and only THEN takes J1 out of F->join_info.
// A fiber_tryjoin(F) / second fiber_join(F) that lands between the two steps
// believes the announcement, takes J1 out of the mailbox (thinking it is F),
// and wakes it.
//
// Build + run through run.sh. The library's own sources are compiled
// unmodified; src/fiber.c is compiled with "-include hook.h", which calls
// d8_hook_pre()/d8_hook_post() (below) immediately before/after every
// atomic_exchange / atomic_compare_exchange_{weak,strong} of that file, and two
// symbols are interposed with -Wl,--wrap= for OBSERVATION only
// (fiber_manager_clear_or_wait, free). Nothing here writes to library data; the
// hook only holds a kernel thread in a spin loop at a chosen point.
//
//   demo a   the intruder is fiber_tryjoin(F, &r)
//   demo b   the intruder is a second fiber_join(F, &r)
//
// exit 0: behaviour as documented   (expected with fix.diff applied)
// exit 1: violation observed        (expected on the unmodified tree)
// exit 3: inconclusive: the scripted schedule did not materialise / watchdog
//
// Cast (2 kernel threads: T0 = main thread, T1 = fiber_manager_init's worker):
//   M   main fiber, T0. Sets everything up, then parks in fiber_join(X).
//   X   the intruder, a fiber that T1 steals and that stays on T1 (it does not
//       yield before its call): waits for the window, calls
//       fiber_tryjoin(F,&r) [a] / fiber_join(F,&r) [b], releases F, then judges.
//   F   the target fiber, runs on T0; returns F_RESULT once J1 is parked.
//   J1  the legitimate joiner, runs on T0: fiber_join(F, &res) while F is
//       still running, so it parks in F->join_info (detach_state WAIT_TO_JOIN).
//
// Schedule:
//   1. J1 parks in F->join_info. F sees that and returns F_RESULT.
//   2. fiber_mark_completed(F): its compare-and-swap on F->detach_state
//      succeeds (it found WAIT_TO_JOIN). Right after it d8_hook_post holds T0:
//      F has announced its new state and has not touched join_info yet.
//   3. X (T1) calls fiber_tryjoin(F, &r) / fiber_join(F, &r).
//   4. X releases F, then watches J1 and F.
//
//   documented: one joiner at most succeeds and it gets exactly F's return
//               value: X's call returns FIBER_ERROR (J1 is the joiner), J1's
//               fiber_join returns FIBER_SUCCESS with F_RESULT, F completes
//               (state DONE) and is reclaimed (free(F)).
//   defect:     X's call finds WAIT_FOR_JOINER, swaps in WAIT_TO_JOIN, copies
//               F->result, takes J1 (!) out of F->join_info and schedules it:
//               X's call returns FIBER_SUCCESS; J1's fiber_join returns
//               FIBER_SUCCESS with NULL (nobody delivered the result); F spins
//               for ever in fiber_manager_clear_or_wait(&F->join_info) on the
//               empty mailbox: never DONE, never reclaimed.

#define _GNU_SOURCE
#include <sched.h>
#include <signal.h>
#include <stdarg.h>
#include <stdatomic.h>
#include <stdint.h>
#include <stdio.h>
#include <string.h>
#include <sys/syscall.h>
#include <time.h>
#include <unistd.h>

#include "fiber_manager.h"

#define STACK_SIZE (256 * 1024)
#define WATCHDOG_SECONDS 20
#define STUCK_OBSERVATION_MS 300  // how long a spinning clear_or_wait is watched
#define WAIT_MS 5000              // upper bound for things that must happen
#define F_RESULT ((void*)0x1234)

#define D8_KIND_XCHG 1
#define D8_KIND_CAS_WEAK 2
#define D8_KIND_CAS_STRONG 3

// ---------------------------------------------------------------- utilities

static atomic_int log_seq;

// raw write(2): the library interposes write()/usleep()/nanosleep()/...; keep
// clear of those from inside hooks and wrappers.
static void say(const char* fmt, ...) {
  char buf[640];
  int n = snprintf(buf, sizeof(buf), "[%03d] ", atomic_fetch_add(&log_seq, 1));
  va_list ap;
  va_start(ap, fmt);
  n += vsnprintf(buf + n, sizeof(buf) - n - 1, fmt, ap);
  va_end(ap);
  if (n > (int)sizeof(buf) - 2) n = sizeof(buf) - 2;
  buf[n++] = '\n';
  syscall(SYS_write, 2, buf, (size_t)n);
}

static long now_ms(void) {
  struct timespec ts;
  clock_gettime(CLOCK_MONOTONIC, &ts);
  return ts.tv_sec * 1000L + ts.tv_nsec / 1000000L;
}

static atomic_int finished;
static atomic_int violations;  // number of violations reported so far

static void finish(int code, const char* what) {
  if (atomic_exchange(&finished, 1)) {
    for (;;) sched_yield();  // somebody else is already terminating
  }
  say("RESULT: %s (exit %d)", what, code);
  _exit(code);
}

static void on_alarm(int sig) {
  (void)sig;
  if (atomic_load(&violations)) {
    static const char msg[] =
        "RESULT: watchdog, after a violation had been observed (exit 1)\n";
    syscall(SYS_write, 2, msg, sizeof(msg) - 1);
    _exit(1);
  }
  static const char msg[] =
      "RESULT: watchdog - scripted schedule did not materialise (exit 3)\n";
  syscall(SYS_write, 2, msg, sizeof(msg) - 1);
  _exit(3);
}

#define WAIT_FOR(cond)             \
  do {                             \
    while (!(cond)) sched_yield(); \
  } while (0)

static int my_thread(void) {
  fiber_manager_t* const m = fiber_manager_get();
  return m ? m->id : -1;
}

static const char* state_name(int s) {
  switch (s) {
    case FIBER_DETACH_NONE: return "NONE";
    case FIBER_DETACH_WAIT_FOR_JOINER: return "WAIT_FOR_JOINER";
    case FIBER_DETACH_WAIT_TO_JOIN: return "WAIT_TO_JOIN";
    case FIBER_DETACH_DETACHED: return "DETACHED";
    case 4: return "JOINED";  // FIBER_DETACH_JOINED, exists with fix.diff only
    default: return "?";
  }
}

static const char* ret_name(int r) {
  return r == FIBER_SUCCESS ? "FIBER_SUCCESS"
         : r == FIBER_ERROR ? "FIBER_ERROR"
                            : "?";
}

static const char* kind_name(int k) {
  return k == D8_KIND_XCHG       ? "atomic_exchange"
         : k == D8_KIND_CAS_WEAK ? "atomic_compare_exchange_weak"
                                 : "atomic_compare_exchange_strong";
}

// ------------------------------------------------------------------- script

static char scenario;              // 'a': fiber_tryjoin, 'b': second fiber_join
static const char* intruder_call;  // "fiber_tryjoin" / "fiber_join"
static fiber_t* volatile F;        // the target fiber
static fiber_t* volatile J1;       // the legitimate joiner
static fiber_t* volatile X;        // the intruder
static fiber_t* volatile M;        // the main fiber
static volatile uintptr_t F_addr;  // F's address, for the free() observer

static atomic_int x_running;     // X runs on T1
static atomic_int armed;         // hold F at its next successful state change
static atomic_int window_open;   // F is held between its two steps
static atomic_int window_thread = -1;  // kernel thread that is held
static atomic_int release_hold;  // F may continue
static atomic_int x_ret = -2;    // return value of the intruder's call
static atomic_int j1_done;       // J1's fiber_join has returned
static atomic_int j1_ret = -2;
static void* _Atomic j1_res;
static atomic_int x_took_j1;        // the intruder's clear_or_wait returned J1
static atomic_int finisher_in_cow;  // F entered clear_or_wait(&F->join_info)
static atomic_long finisher_in_cow_since;
static atomic_int finisher_cow_returned;  // ... and got something out of it
static atomic_int f_reclaimed;            // free(F) was called

static const char* who(const void* p) {
  if (!p) return "NULL";
  if (p == (const void*)F_addr) return "F";
  if (p == J1) return "J1";
  if (p == X) return "X";
  if (p == M) return "M";
  return "another fiber";
}

// ------------------------------------------- hooks called from src/fiber.c

int d8_hook_pre(const volatile void* object, int kind, const char* func) {
  fiber_t* const f = F;
  if (!f || object != (const volatile void*)&f->detach_state) {
    return 0;
  }
  say("  T%d %s(F): about to %s F->detach_state, which is now %s", my_thread(),
      func, kind_name(kind), state_name(f->detach_state));
  return 1;
}

void d8_hook_post(int token, int kind, int observed, int succeeded,
                  const char* func) {
  (void)token;
  fiber_t* const f = F;
  if (kind == D8_KIND_XCHG) {
    say("  T%d %s(F): atomic_exchange returned %s; F->detach_state is now %s",
        my_thread(), func, state_name(observed), state_name(f->detach_state));
  } else {
    say("  T%d %s(F): %s %s, it found %s; F->detach_state is now %s",
        my_thread(), func, kind_name(kind), succeeded ? "succeeded" : "failed",
        state_name(observed), state_name(f->detach_state));
  }
  // The window: the finishing fiber has successfully changed the state of a
  // fiber whose joiner is parked (it found WAIT_TO_JOIN) and has not taken the
  // joiner out of join_info yet.
  int expected = 1;
  if (strcmp(func, "fiber_mark_completed") != 0 || !succeeded ||
      observed != FIBER_DETACH_WAIT_TO_JOIN ||
      !atomic_compare_exchange_strong(&armed, &expected, 0)) {
    return;
  }
  say("  T%d fiber_mark_completed(F): HELD between its state change and taking "
      "the joiner out of F->join_info; F->detach_state = %s, F->join_info = %s",
      my_thread(), state_name(f->detach_state), who(f->join_info));
  atomic_store(&window_thread, my_thread());
  atomic_store(&window_open, 1);
  WAIT_FOR(atomic_load(&release_hold));
  say("  T%d fiber_mark_completed(F): released; F->detach_state = %s, "
      "F->join_info = %s",
      my_thread(), state_name(f->detach_state), who(f->join_info));
}

// ------------------------------------------------- observers (-Wl,--wrap=)

extern void* __real_fiber_manager_clear_or_wait(fiber_manager_t* manager,
                                                _Atomic(void*)* location);

void* __wrap_fiber_manager_clear_or_wait(fiber_manager_t* manager,
                                         _Atomic(void*)* location) {
  fiber_t* const f = F;
  if (!f || (void*)location != (void*)&f->join_info) {
    return __real_fiber_manager_clear_or_wait(manager, location);
  }
  fiber_t* const caller = manager->current_fiber;
  const int self = (caller == f);
  say("  T%d fiber_manager_clear_or_wait(&F->join_info) entered by %s%s; "
      "F->join_info = %s, F->detach_state = %s",
      my_thread(), who(caller), self ? " (fiber_mark_completed)" : "",
      who(f->join_info), state_name(f->detach_state));
  if (self) {
    atomic_store(&finisher_in_cow_since, now_ms());
    atomic_store(&finisher_in_cow, 1);
  }
  void* const got = __real_fiber_manager_clear_or_wait(manager, location);
  say("  T%d fiber_manager_clear_or_wait(&F->join_info) called by %s returned "
      "%s",
      my_thread(), who(caller), who(got));
  if (self) {
    atomic_store(&finisher_cow_returned, 1);
  } else if (got == J1) {
    atomic_store(&x_took_j1, 1);
  }
  return got;
}

extern void __real_free(void* p);

void __wrap_free(void* p) {
  if (p && (uintptr_t)p == F_addr && !atomic_load(&f_reclaimed)) {
    say("  T%d free(F): the fiber is reclaimed", my_thread());
    atomic_store(&f_reclaimed, 1);
  }
  __real_free(p);
}

// ------------------------------------------------------------------- fibers

static void* target_fn(void* p) {
  (void)p;
  fiber_t* const f = F;
  // keep running until the joiner is parked in our mailbox
  while (f->join_info == NULL) fiber_yield();
  say("T%d F: J1 is parked (F->detach_state = %s, F->join_info = %s); function "
      "returns %p",
      my_thread(), state_name(f->detach_state), who(f->join_info), F_RESULT);
  return F_RESULT;
}

static void* joiner_fn(void* p) {
  (void)p;
  void* res = (void*)1;
  say("T%d J1: fiber_join(F, &res) ...", my_thread());
  const int r = fiber_join(F, &res);
  say("T%d J1: fiber_join(F, &res) returned %s, res = %p", my_thread(),
      ret_name(r), res);
  atomic_store(&j1_res, res);
  atomic_store(&j1_ret, r);
  atomic_store(&j1_done, 1);
  return NULL;
}

static void violation(const char* fmt, ...) {
  char buf[512];
  va_list ap;
  va_start(ap, fmt);
  vsnprintf(buf, sizeof(buf), fmt, ap);
  va_end(ap);
  atomic_fetch_add(&violations, 1);
  say("VIOLATION: %s", buf);
}

static void* intruder_fn(void* p) {
  (void)p;
  say("T%d X: running (stolen by T%d), waiting for the window", my_thread(),
      my_thread());
  atomic_store(&x_running, 1);

  // no fiber yield before the call: X stays on this kernel thread
  WAIT_FOR(atomic_load(&window_open));
  fiber_t* const f = F;
  if (my_thread() == atomic_load(&window_thread)) {
    atomic_store(&release_hold, 1);
    finish(3, "X runs on the kernel thread that is held");
  }
  void* r = (void*)1;
  say("T%d X: F is finishing on T%d and has announced %s; %s(F, &r) ...",
      my_thread(), atomic_load(&window_thread), state_name(f->detach_state),
      intruder_call);
  const int xr = (scenario == 'a') ? fiber_tryjoin(f, &r) : fiber_join(f, &r);
  say("T%d X: %s(F, &r) returned %s, r = %p; F->detach_state = %s, "
      "F->join_info = %s",
      my_thread(), intruder_call, ret_name(xr), r, state_name(f->detach_state),
      who(f->join_info));
  atomic_store(&x_ret, xr);
  if (xr != FIBER_ERROR) {
    violation("%s(F) returned %s (r = %p) although J1 is F's joiner%s",
              intruder_call, ret_name(xr), r,
              atomic_load(&x_took_j1)
                  ? "; it took the parked JOINER J1 out of F->join_info, "
                    "mistaking it for the finished fiber, and scheduled it"
                  : "");
  }
  atomic_store(&release_hold, 1);

  // From here on X only judges; it yields so that whatever was scheduled on
  // this kernel thread can run.

  // (1) J1's join
  long t0 = now_ms();
  while (!atomic_load(&j1_done)) {
    if (now_ms() - t0 > WAIT_MS) {
      violation("J1's fiber_join(F) has not returned after %d ms", WAIT_MS);
      break;
    }
    fiber_yield();
  }
  if (atomic_load(&j1_done)) {
    const int jr = atomic_load(&j1_ret);
    void* const jres = atomic_load(&j1_res);
    if (jr != FIBER_SUCCESS || jres != F_RESULT) {
      violation("J1's fiber_join(F, &res) returned %s with res = %p; F returned "
                "%p%s",
                ret_name(jr), jres, F_RESULT,
                (jr == FIBER_SUCCESS && xr == FIBER_SUCCESS)
                    ? " - and two joiners have succeeded for one fiber"
                    : "");
    }
  }

  // (2) F completes and is reclaimed
  t0 = now_ms();
  while (!atomic_load(&f_reclaimed)) {
    if (atomic_load(&finisher_in_cow) && !atomic_load(&finisher_cow_returned) &&
        now_ms() - atomic_load(&finisher_in_cow_since) > STUCK_OBSERVATION_MS) {
      // F is still inside clear_or_wait, hence alive: reading it is safe
      if (!atomic_load(&finisher_cow_returned) &&
          f->state != FIBER_STATE_DONE && f->join_info == NULL) {
        violation("F has been spinning in "
                  "fiber_manager_clear_or_wait(&F->join_info) inside "
                  "fiber_mark_completed for %d ms: F->state = %d (not DONE), "
                  "F->join_info = NULL and nobody will fill it (J1 has been "
                  "woken already), F->detach_state = %s: F never completes and "
                  "is never reclaimed",
                  STUCK_OBSERVATION_MS, (int)f->state,
                  state_name(f->detach_state));
        break;
      }
    }
    if (now_ms() - t0 > WAIT_MS) {
      if (atomic_load(&violations)) break;
      finish(3, "F neither completed nor got stuck (inconclusive)");
    }
    fiber_yield();
  }

  if (atomic_load(&violations)) {
    char buf[160];
    snprintf(buf, sizeof(buf), "scenario %c (%s in the window): %d violations",
             scenario, intruder_call, atomic_load(&violations));
    finish(1, buf);
  }
  char buf[256];
  snprintf(buf, sizeof(buf),
           "scenario %c: %s failed with FIBER_ERROR, J1's join returned F's "
           "result, F completed and was reclaimed",
           scenario, intruder_call);
  finish(0, buf);
  return NULL;
}

int main(int argc, char** argv) {
  scenario = (argc > 1) ? argv[1][0] : 'a';
  if (scenario != 'a' && scenario != 'b') {
    fprintf(stderr, "usage: %s a|b\n", argv[0]);
    return 3;
  }
  intruder_call = (scenario == 'a') ? "fiber_tryjoin" : "fiber_join";

  fiber_manager_init(2);
  // after fiber_manager_init: it calls splitstack_disable_block_signals()
  signal(SIGALRM, on_alarm);
  alarm(WATCHDOG_SECONDS);

  say("scenario %c: %s(F) lands between the finisher's state change and its "
      "taking the joiner out of join_info",
      scenario, intruder_call);
  M = fiber_manager_get()->current_fiber;

  // M keeps T0 busy (no fiber yield) until idle T1 has stolen X with the
  // library's own load balancer; X does not yield before its call, so until
  // then T1 runs X only and T0 runs everything else.
  fiber_t* const x = fiber_create(STACK_SIZE, intruder_fn, NULL);
  X = x;
  WAIT_FOR(atomic_load(&x_running));

  fiber_t* const f = fiber_create(STACK_SIZE, target_fn, NULL);
  F_addr = (uintptr_t)f;
  F = f;
  fiber_t* const j1 = fiber_create(STACK_SIZE, joiner_fn, NULL);
  J1 = j1;
  fiber_detach(j1);  // nobody joins J1
  atomic_store(&armed, 1);
  say("T%d M: F and J1 created (F->detach_state = %s); parking in fiber_join(X)",
      my_thread(), state_name(f->detach_state));
  fiber_join(x, NULL);  // parks M; T0 now runs F and J1
  finish(3, "M resumed unexpectedly");
  return 3;
}
