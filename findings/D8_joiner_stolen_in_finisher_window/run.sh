#!/bin/sh
# usage: sh run.sh <path-to-libfiber-source-tree> [a|b]
# exit 0: behaviour as documented; 1: violation observed; 2: build failure
# (3: inconclusive - the scripted schedule did not materialise / watchdog)
# scenario a: fiber_tryjoin(F) in the window; b: a second fiber_join(F); default: both
SRC=${1:?usage: sh run.sh <libfiber source tree> [a|b]}
WHICH=${2:-ab}
HERE=$(cd "$(dirname "$0")" && pwd)
CC=${CC:-gcc}
OUT=$(mktemp -d /tmp/d8demo.XXXXXX) || exit 2
trap 'rm -rf "$OUT"' EXIT

# the library's own sources and default options (see CMakeLists.txt:
# native event engine, wsd scheduler, fast switching, split stacks)
CFLAGS="-std=gnu11 -g -DFIBER_FAST_SWITCHING -DFIBER_STACK_SPLIT -fsplit-stack -I$SRC/include"
LIBSRC=""
for f in fiber_context fiber_manager fiber_mutex fiber_semaphore fiber_spinlock \
         fiber_cond fiber_barrier fiber_io fiber_rwlock hazard_pointer \
         work_stealing_deque work_queue fiber_scheduler_wsd fiber_event_native; do
  LIBSRC="$LIBSRC $SRC/src/$f.c"
done

# observation only: who enters fiber_manager_clear_or_wait on the target's
# mailbox (and what it gets out of it), and when the target fiber is freed
WRAP="-Wl,--wrap=fiber_manager_clear_or_wait -Wl,--wrap=free"

{
  # src/fiber.c, unmodified, with the hook header in front: the hooks are
  # called right before/after its atomic read-modify-write operations
  $CC $CFLAGS -include "$HERE/hook.h" -c "$SRC/src/fiber.c" -o "$OUT/fiber.o" &&
  $CC $CFLAGS $LIBSRC "$OUT/fiber.o" "$HERE/demo.c" $WRAP -lpthread -ldl \
      -o "$OUT/demo"
} >"$OUT/build.log" 2>&1 || { cat "$OUT/build.log" >&2; exit 2; }

worst=0
for s in a b; do
  case "$WHICH" in *$s*) ;; *) continue ;; esac
  "$OUT/demo" $s
  rc=$?
  echo "scenario $s: exit $rc" >&2
  case $rc in
    0) ;;
    1) worst=1 ;;
    *) [ $worst -eq 1 ] || worst=3 ;;
  esac
done
exit $worst
