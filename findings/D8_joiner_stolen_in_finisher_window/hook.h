// Force-included (gcc -include hook.h) in front of src/fiber.c ONLY.
//
// It re-defines the three C11 read-modify-write macros that fiber.c uses on
// fiber_t::detach_state (atomic_compare_exchange_weak in fiber_mark_completed
// and fiber_join, atomic_compare_exchange_strong in fiber_tryjoin,
// atomic_exchange in fiber_detach) so that
//   d8_hook_pre()  is called right BEFORE the real atomic operation and
//   d8_hook_post() right AFTER it (only if d8_hook_pre returned non-zero).
// The real operation is performed unchanged (same object, same operands, same
// memory order, same result). The callbacks live in demo.c; they never write to
// library data, they only hold the calling kernel thread in a spin loop at this
// point (here: right AFTER the finishing fiber's successful state change in
// fiber_mark_completed and BEFORE it takes the parked joiner out of join_info,
// so that a fiber on ANOTHER kernel thread can run fiber_tryjoin / fiber_join
// exactly in that window) and report what the operation observed.
//
// The library sources are not modified.

#ifndef D8_HOOK_H
#define D8_HOOK_H

#include <stdatomic.h>

#define D8_KIND_XCHG 1
#define D8_KIND_CAS_WEAK 2
#define D8_KIND_CAS_STRONG 3

// returns 0 if the object is of no interest (then d8_hook_post is not called)
extern int d8_hook_pre(const volatile void* object, int kind, const char* func);
// 'observed' = the value the operation found in the object (exchange: the
// returned old value; compare-exchange: *expected after the operation),
// 'succeeded' = result of a compare-exchange (always 1 for an exchange)
extern void d8_hook_post(int token, int kind, int observed, int succeeded,
                         const char* func);

#undef atomic_exchange
#define atomic_exchange(PTR, VAL)                                             \
  __extension__({                                                             \
    __auto_type d8_xp = (PTR);                                                \
    const int d8_xt =                                                         \
        d8_hook_pre((const volatile void*)d8_xp, D8_KIND_XCHG, __func__);     \
    __auto_type d8_xr =                                                       \
        atomic_exchange_explicit(d8_xp, (VAL), memory_order_seq_cst);         \
    if (d8_xt) {                                                              \
      d8_hook_post(d8_xt, D8_KIND_XCHG, *(const int*)(const void*)&d8_xr, 1,  \
                   __func__);                                                 \
    }                                                                         \
    d8_xr;                                                                    \
  })

#define D8_CAS(KIND, REAL, PTR, EXP, DES)                                     \
  __extension__({                                                             \
    __auto_type d8_cp = (PTR);                                                \
    __auto_type d8_ce = (EXP);                                                \
    const int d8_ct = d8_hook_pre((const volatile void*)d8_cp, KIND, __func__); \
    const _Bool d8_cr = REAL(d8_cp, d8_ce, (DES), memory_order_seq_cst,       \
                             memory_order_seq_cst);                           \
    if (d8_ct) {                                                              \
      d8_hook_post(d8_ct, KIND, *(const int*)(const void*)d8_ce, d8_cr,       \
                   __func__);                                                 \
    }                                                                         \
    d8_cr;                                                                    \
  })

#undef atomic_compare_exchange_weak
#define atomic_compare_exchange_weak(PTR, EXP, DES)                           \
  D8_CAS(D8_KIND_CAS_WEAK, atomic_compare_exchange_weak_explicit, PTR, EXP, DES)

#undef atomic_compare_exchange_strong
#define atomic_compare_exchange_strong(PTR, EXP, DES)                         \
  D8_CAS(D8_KIND_CAS_STRONG, atomic_compare_exchange_strong_explicit, PTR, EXP, \
         DES)

#endif
