/* Native witness for D2a (C08): invalid descriptors reach fd_info[fd] / wait_info[fd] without a range check.
 * exit 0 = every call returned an error, 1 = a call "succeeded" on an invalid descriptor (after an out-of-bounds write), crash = SIGSEGV */
#include <stdio.h>
#include <fcntl.h>
#include <errno.h>
#include <unistd.h>
#include <sys/ioctl.h>
#include "fiber_manager.h"
int main(void) {
  fiber_manager_init(1);
  int bad = 0, one = 1;
  errno = 0; int r = fcntl(-1, F_SETFL, O_NONBLOCK); printf("fcntl(-1,F_SETFL,O_NONBLOCK) = %d errno=%d\n", r, errno); if (r != -1) bad = 1;
  errno = 0; r = ioctl(-1, FIONBIO, &one); printf("ioctl(-1,FIONBIO) = %d errno=%d\n", r, errno); if (r != -1) bad = 1;
  fflush(stdout);
  errno = 0; r = close(-1); printf("close(-1) = %d errno=%d\n", r, errno); if (r != -1) bad = 1;
  errno = 0; r = close(1 << 28); printf("close(1<<28) = %d errno=%d\n", r, errno); if (r != -1) bad = 1;
  if (bad) { printf("VIOLATION: a call on an invalid descriptor did not yield an error return\n"); return 1; }
  printf("ok\n"); return 0;
}
