#!/bin/sh
# usage: sh run.sh <path-to-libfiber-source-tree>
# exit 0: no violation observed; 1: violation observed; 2: build failure
# (3: inconclusive - forced schedule did not materialise / watchdog)
SRC=${1:?usage: sh run.sh <libfiber source tree>}
HERE=$(cd "$(dirname "$0")" && pwd)
CC=${CC:-gcc}
OUT=$(mktemp -d /tmp/d6demo.XXXXXX) || exit 2
trap 'rm -rf "$OUT"' EXIT

# the library's own sources and default options (see CMakeLists.txt:
# native event engine, wsd scheduler, fast switching, split stacks)
LIBSRC=""
for f in fiber_context fiber_manager fiber_mutex fiber_semaphore fiber_spinlock \
         fiber_cond fiber fiber_barrier fiber_io fiber_rwlock hazard_pointer \
         work_stealing_deque work_queue fiber_scheduler_wsd fiber_event_native; do
  LIBSRC="$LIBSRC $SRC/src/$f.c"
done

WRAP="-Wl,--wrap=fiber_scheduler_load_balance"
WRAP="$WRAP -Wl,--wrap=fiber_manager_wait_in_mpsc_queue"
WRAP="$WRAP -Wl,--wrap=fiber_mutex_unlock_internal"
WRAP="$WRAP -Wl,--wrap=fiber_context_swap"

$CC -std=gnu11 -g -DFIBER_FAST_SWITCHING -DFIBER_STACK_SPLIT -fsplit-stack \
    -I"$SRC/include" $LIBSRC "$HERE/demo.c" $WRAP -lpthread -ldl \
    -o "$OUT/demo" >"$OUT/build.log" 2>&1 || { cat "$OUT/build.log" >&2; exit 2; }

"$OUT/demo"
exit $?
