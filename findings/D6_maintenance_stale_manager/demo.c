// Witness for "stale manager pointer in fiber_manager_do_maintenance()".
//
// Build + run through run.sh (it compiles the library's own sources together
// with this file and interposes a few internal functions with -Wl,--wrap=...).
// The library sources are NOT modified; the wrappers only (a) decide WHEN a
// kernel thread may proceed (they hold it in a spin loop) and (b) observe.
//
// exit 0: no violation observed      (expected with fix.diff applied)
// exit 1: violation observed         (expected on the unmodified tree)
// exit 3: the forced schedule did not materialise / watchdog (inconclusive)
//
// Cast (kernel threads T0,T1,T2; T0 is the main thread):
//   M  main fiber on T0: holds `mutex`, then fiber_cond_wait(&cond,&mutex)
//      -> T0's manager->mutex_to_unlock = &mutex  (deferred unlock)
//   W  on T1: fiber_mutex_lock(&mutex); held by a wrapper AFTER it decremented
//      mutex.counter and BEFORE it pushed itself onto mutex.waiters ("limbo")
//   A  fresh fiber on T0, runs right after M parks: its do_maintenance()
//      performs M's deferred unlock, cannot pop W, yields IN THE MIDDLE of
//      do_maintenance, is stolen by T2 and continues there.
//   B  fiber on T0 (the one A yielded to): fiber_signal_wait(&sig); fills
//      T0's manager->set_wait_location/value and is held by a wrapper at the
//      very entry of its fiber_context_swap (its context is NOT saved yet).
//
// Then W is released, A (now on T2) finishes the unlock and returns into the
// rest of do_maintenance - with `manager` still pointing at T0's manager.

#define _GNU_SOURCE
#include <pthread.h>
#include <sched.h>
#include <stdarg.h>
#include <stdatomic.h>
#include <stdio.h>
#include <string.h>
#include <sys/syscall.h>
#include <time.h>
#include <unistd.h>

#include "fiber_manager.h"
#include "fiber_cond.h"
#include "fiber_mutex.h"
#include "fiber_signal.h"

#define STACK_SIZE (256 * 1024)
#define WATCHDOG_SECONDS 30
#define DOUBLE_RUN_WAIT_MS 5000

// ---------------------------------------------------------------- utilities

static atomic_int log_seq;

// raw write(2): the library interposes write()/usleep()/nanosleep()/..., keep
// clear of those from inside the wrappers.
static void say(const char* fmt, ...) {
  char buf[512];
  int n = snprintf(buf, sizeof(buf), "[%03d] ", atomic_fetch_add(&log_seq, 1));
  va_list ap;
  va_start(ap, fmt);
  n += vsnprintf(buf + n, sizeof(buf) - n - 1, fmt, ap);
  va_end(ap);
  if (n > (int)sizeof(buf) - 2) n = sizeof(buf) - 2;
  buf[n++] = '\n';
  syscall(SYS_write, 2, buf, (size_t)n);
}

static long now_ms(void) {
  struct timespec ts;
  clock_gettime(CLOCK_MONOTONIC, &ts);
  return ts.tv_sec * 1000L + ts.tv_nsec / 1000000L;
}

static atomic_int finished;

static void finish(int code, const char* what) {
  if (atomic_exchange(&finished, 1)) {
    for (;;) sched_yield();  // somebody else is already terminating
  }
  say("RESULT: %s (exit %d)", what, code);
  _exit(code);
}

static void spin_until(atomic_int* flag) {
  while (!atomic_load(flag)) {
    sched_yield();
  }
}

static int my_tid(void) {
  fiber_manager_t* const m = fiber_manager_get();
  return m ? m->id : -1;
}

// ------------------------------------------------------------------- state

static fiber_mutex_t mutex;
static fiber_cond_t cond;
static fiber_signal_t sig;

static fiber_manager_t* mgr0;  // T0's manager
static fiber_t* volatile fW;
static fiber_t* volatile fA;
static fiber_t* volatile fB;
static fiber_context_t* volatile ctxA;
static fiber_context_t* volatile ctxB;

static atomic_int steal_enabled[3];  // may kernel thread i steal right now?
static atomic_int armed;             // wrappers start looking at A/B
static atomic_int w_limbo;           // W decremented counter, not enqueued
static atomic_int w_limbo_tid = -1;
static atomic_int release_w;         // let W enqueue itself
static atomic_int a_switch_ins;      // how often somebody switched into A
static atomic_int a_on_t2;           // T2 is switching into A
static atomic_int a_unlock_enter_tid = -1;
static atomic_int a_unlock_exit_tid = -1;
static atomic_int a_past_maint;      // A's do_maintenance() has returned
static atomic_int b_about_to_wait;   // B is about to call fiber_signal_wait
static atomic_int b_held;            // B is held at its context switch
static atomic_int double_run;        // tid+1 of a thread switching into held B
static atomic_int a_done, b_done, w_done;

// -------------------------------------------------------------- interposers

void __real_fiber_scheduler_load_balance(fiber_scheduler_t* sched);
void __real_fiber_manager_wait_in_mpsc_queue(fiber_manager_t* manager,
                                             mpsc_fifo_t* fifo);
int __real_fiber_mutex_unlock_internal(fiber_mutex_t* mutex);
void __real_fiber_context_swap(fiber_context_t* from, fiber_context_t* to);

// Work stealing is the library's own fiber_scheduler_load_balance(); we only
// decide which kernel thread is allowed to steal at which moment.
void __wrap_fiber_scheduler_load_balance(fiber_scheduler_t* sched) {
  const int tid = my_tid();
  if (tid >= 0 && tid < 3 && atomic_load(&steal_enabled[tid])) {
    __real_fiber_scheduler_load_balance(sched);
  }
}

// Called by fiber_mutex_lock() after `counter` was decremented. Hold W here:
// it has announced itself as a waiter but is not in mutex.waiters yet.
void __wrap_fiber_manager_wait_in_mpsc_queue(fiber_manager_t* manager,
                                             mpsc_fifo_t* fifo) {
  if (manager->current_fiber == fW && fifo == &mutex.waiters &&
      !atomic_load(&release_w)) {
    atomic_store(&w_limbo_tid, manager->id);
    say("T%d: W is in fiber_mutex_lock: counter decremented (now %d), NOT yet "
        "in mutex.waiters -> held",
        manager->id, (int)mutex.counter);
    atomic_store(&w_limbo, 1);
    spin_until(&release_w);
    say("T%d: W released, enqueues itself on mutex.waiters now", manager->id);
  }
  __real_fiber_manager_wait_in_mpsc_queue(manager, fifo);
}

// Pure observation: on which kernel thread does A enter / leave the deferred
// unlock that do_maintenance() performs?
int __wrap_fiber_mutex_unlock_internal(fiber_mutex_t* mu) {
  fiber_manager_t* const m = fiber_manager_get();
  const int mine = (mu == &mutex && atomic_load(&armed) &&
                    m->current_fiber == fA);
  if (mine) {
    atomic_store(&a_unlock_enter_tid, m->id);
    say("T%d: A (in do_maintenance for M) enters "
        "fiber_mutex_unlock_internal(&mutex); T%d->mutex_to_unlock consumed",
        m->id, m->id);
  }
  const int ret = __real_fiber_mutex_unlock_internal(mu);
  if (mine) {
    fiber_manager_t* const m2 = fiber_manager_get();
    atomic_store(&a_unlock_exit_tid, m2->id);
    say("T%d: A returns from fiber_mutex_unlock_internal (entered on T%d, "
        "wake loop yielded %llu+%llu times) -> back in do_maintenance",
        m2->id, atomic_load(&a_unlock_enter_tid),
        (unsigned long long)mgr0->wake_mpsc_spin_count,
        (unsigned long long)m2->wake_mpsc_spin_count);
  }
  return ret;
}

static void hold_b(fiber_manager_t* m);

void __wrap_fiber_context_swap(fiber_context_t* from, fiber_context_t* to) {
  if (atomic_load(&armed)) {
    const int tid = my_tid();
    if (to == ctxA) {
      const int n = atomic_fetch_add(&a_switch_ins, 1) + 1;
      say("T%d: switching into A (switch-in #%d; A's body has %s)", tid, n,
          atomic_load(&a_past_maint) ? "started" : "NOT started yet");
      if (tid == 2) {
        atomic_store(&a_on_t2, 1);
      }
    }
    if (to == ctxB && atomic_load(&b_held)) {
      // the strong form: B was made wakeable before its context was saved,
      // somebody woke it, and this kernel thread is about to run it although
      // it is still executing on T0. Do not actually do it.
      say("T%d: VIOLATION(b): about to fiber_context_swap INTO B "
          "(B->state=%d) while B is still running on T0 and has never saved "
          "its context -> B would run on two kernel threads",
          tid, (int)fB->state);
      atomic_store(&double_run, tid + 1);
      for (;;) sched_yield();
    }
    if (from == ctxB && atomic_load(&b_about_to_wait)) {
      atomic_store(&b_about_to_wait, 0);
      hold_b(fiber_manager_get());
    }
  }
  __real_fiber_context_swap(from, to);
}

// B is inside fiber_signal_wait -> fiber_manager_yield -> switch_to, one
// instruction away from saving its context. It has filled T0's deferred
// "set_wait" slot. Hold it here and see who touches that slot.
static void hold_b(fiber_manager_t* m) {
  atomic_store(&b_held, 1);
  if (m != mgr0 || m->old_fiber != fB ||
      m->set_wait_location != (void**)&fB->scratch ||
      m->set_wait_value != (void*)FIBER_SIGNAL_READY_TO_WAKE ||
      fB->scratch != NULL) {
    say("T%d: unexpected state at B's context switch", m->id);
    finish(3, "INCONCLUSIVE: schedule not as forced");
  }
  say("T0: B is in fiber_signal_wait, filled T0->set_wait_location=&B->scratch "
      "(value READY_TO_WAKE), B->scratch=NULL; B held BEFORE its "
      "fiber_context_swap (context not saved)");
  say("T0: releasing W so that A's wake loop (on T%d) can finish",
      atomic_load(&a_on_t2) ? 2 : -1);
  atomic_store(&release_w, 1);

  // wait until A's do_maintenance() has completely returned (A's body runs)
  spin_until(&a_past_maint);

  void* const marker = fB->scratch;
  void** const slot = mgr0->set_wait_location;
  if (marker == (void*)FIBER_SIGNAL_READY_TO_WAKE ||
      slot != (void**)&fB->scratch) {
    say("T0: VIOLATION(a): B->scratch=%p (READY_TO_WAKE=%p), "
        "T0->set_wait_location=%p (B had set %p) while B is STILL RUNNING on "
        "T0 and has not passed fiber_context_swap",
        marker, (void*)FIBER_SIGNAL_READY_TO_WAKE, (void*)slot,
        (void*)&fB->scratch);
    say("T0: B's deferred action was executed by A, whose do_maintenance "
        "started on T%d and continued on T%d with T0's stale manager pointer",
        atomic_load(&a_unlock_enter_tid), atomic_load(&a_unlock_exit_tid));
    // A goes on to fiber_signal_raise(&sig): it sees the marker and schedules
    // B. Wait (bounded) for some kernel thread to try to run B.
    const long deadline = now_ms() + DOUBLE_RUN_WAIT_MS;
    while (!atomic_load(&double_run) && now_ms() < deadline) {
      sched_yield();
    }
    if (atomic_load(&double_run)) {
      finish(1,
             "VIOLATION: deferred wake-marker of a not-yet-saved fiber written "
             "through a stale manager pointer; a second kernel thread then "
             "tried to run that fiber");
    }
    finish(1,
           "VIOLATION: deferred wake-marker of a not-yet-saved fiber written "
           "through a stale manager pointer");
  }

  say("T0: OK: A finished do_maintenance on T%d; B->scratch=%p, "
      "T0->set_wait_location=%p still B's -> nobody touched B's deferred "
      "action. Releasing B.",
      atomic_load(&a_unlock_exit_tid), marker, (void*)slot);
  atomic_store(&b_held, 0);
  // experiment over: normal work stealing everywhere
  atomic_store(&steal_enabled[0], 1);
  atomic_store(&steal_enabled[1], 1);
  atomic_store(&steal_enabled[2], 1);
}

// ------------------------------------------------------------------ fibers

static void* w_body(void* p) {
  (void)p;
  fiber_mutex_lock(&mutex);  // contended: M holds it
  say("T%d: W owns the mutex", my_tid());
  fiber_cond_signal(&cond);  // wake M
  fiber_mutex_unlock(&mutex);
  atomic_store(&w_done, 1);
  return NULL;
}

static void* a_body(void* p) {
  (void)p;
  // A is a fresh fiber: its entry trampoline ran fiber_manager_do_maintenance()
  // before calling this function, i.e. that maintenance has fully returned.
  say("T%d: A's do_maintenance returned, A's body starts (A was switched "
      "into %d times before its body started)",
      my_tid(), atomic_load(&a_switch_ins));
  atomic_store(&a_past_maint, 1);
  const int woke = fiber_signal_raise(&sig);
  say("T%d: A: fiber_signal_raise(&sig) returned %d", my_tid(), woke);
  atomic_store(&a_done, 1);
  return NULL;
}

static void* b_body(void* p) {
  (void)p;
  if (my_tid() != 0) {
    finish(3, "INCONCLUSIVE: B did not start on T0");
  }
  say("T0: B runs (A yielded to it from inside do_maintenance); B's own "
      "maintenance has put A on T0's run queue");
  // keep T0 busy and let idle T2 steal A with the library's load balancer
  atomic_store(&steal_enabled[2], 1);
  spin_until(&a_on_t2);
  atomic_store(&steal_enabled[2], 0);
  atomic_store(&b_about_to_wait, 1);
  fiber_signal_wait(&sig);
  say("T%d: B woke up from fiber_signal_wait", my_tid());
  atomic_store(&b_done, 1);
  return NULL;
}

static void* watchdog(void* p) {
  (void)p;
  const long deadline = now_ms() + WATCHDOG_SECONDS * 1000L;
  while (now_ms() < deadline) {
    struct timespec ts = {0, 50 * 1000 * 1000};
    clock_nanosleep(CLOCK_MONOTONIC, 0, &ts, NULL);
  }
  say("watchdog: w_limbo=%d a_switch_ins=%d a_on_t2=%d a_past_maint=%d "
      "b_held=%d a_done=%d b_done=%d w_done=%d",
      atomic_load(&w_limbo), atomic_load(&a_switch_ins),
      atomic_load(&a_on_t2), atomic_load(&a_past_maint), atomic_load(&b_held),
      atomic_load(&a_done), atomic_load(&b_done), atomic_load(&w_done));
  finish(3, "INCONCLUSIVE: watchdog timeout");
  return NULL;
}

int main(void) {
  fiber_manager_init(3);
  mgr0 = fiber_manager_get();

  pthread_t wd;
  pthread_create(&wd, NULL, &watchdog, NULL);

  fiber_mutex_init(&mutex);
  fiber_cond_init(&cond);
  fiber_signal_init(&sig);

  fiber_mutex_lock(&mutex);  // M owns the mutex

  // 1. W: let T1 (and only T1) steal it; it blocks on the mutex and is held in
  //    limbo by the wrapper.
  fW = fiber_create(STACK_SIZE, &w_body, NULL);
  atomic_store(&steal_enabled[1], 1);
  spin_until(&w_limbo);
  atomic_store(&steal_enabled[1], 0);
  if (atomic_load(&w_limbo_tid) != 1) {
    finish(3, "INCONCLUSIVE: W not on T1");
  }

  // 2. B then A on T0's run queue (LIFO: A is picked first, then B).
  fB = fiber_create(STACK_SIZE, &b_body, NULL);
  fA = fiber_create(STACK_SIZE, &a_body, NULL);
  ctxB = &fB->context;
  ctxA = &fA->context;
  atomic_store(&armed, 1);

  // 3. park with a deferred mutex release: T0->mutex_to_unlock = &mutex; the
  //    next fiber on T0 (A) performs it in do_maintenance().
  say("T0: M calls fiber_cond_wait(&cond,&mutex) -> deferred unlock for the "
      "next fiber's do_maintenance");
  fiber_cond_wait(&cond, &mutex);

  // only reached when nothing went wrong
  say("T%d: M woke up from fiber_cond_wait and owns the mutex again",
      my_tid());
  fiber_mutex_unlock(&mutex);
  atomic_store(&armed, 0);
  fiber_join(fA, NULL);
  fiber_join(fB, NULL);
  fiber_join(fW, NULL);
  if (!atomic_load(&a_done) || !atomic_load(&b_done) || !atomic_load(&w_done)) {
    finish(3, "INCONCLUSIVE: fibers did not finish");
  }
  finish(0,
         "no violation: A migrated T0->T2 inside do_maintenance but did not "
         "touch T0's deferred slots afterwards; all fibers completed");
  return 0;
}
