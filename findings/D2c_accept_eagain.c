/* Native witness for D2c (C08): two fibers block in accept() on one listening socket; one connection arrives.
 * Both are woken; the loser's second accept gets EAGAIN, and the shim returns that to a caller in blocking mode.
 * exit 0 = no blocking accept failed with EAGAIN, 1 = it did. */
#include <stdio.h>
#include <errno.h>
#include <string.h>
#include <unistd.h>
#include <arpa/inet.h>
#include <sys/socket.h>
#include "fiber_manager.h"
#include "fiber_event.h"
static int lsock; static volatile int eagain_seen, accepted;
static void* acceptor(void* p) {
  int s = accept(lsock, NULL, NULL);
  if (s < 0 && (errno == EAGAIN || errno == EWOULDBLOCK)) { eagain_seen = 1; printf("acceptor%ld: ret=-1 errno=%d (EAGAIN)\n", (long)p, errno); }
  else if (s >= 0) { accepted++; close(s); }
  return NULL;
}
int main(void) {
  fiber_manager_init(1);
  lsock = socket(AF_INET, SOCK_STREAM, 0);
  struct sockaddr_in a; memset(&a, 0, sizeof a); a.sin_family = AF_INET; a.sin_addr.s_addr = htonl(INADDR_LOOPBACK); a.sin_port = 0;
  if (bind(lsock, (struct sockaddr*)&a, sizeof a) || listen(lsock, 8)) { perror("bind/listen"); return 2; }
  socklen_t al = sizeof a; getsockname(lsock, (struct sockaddr*)&a, &al);
  fiber_t* f1 = fiber_create(65536, acceptor, (void*)0);
  fiber_t* f2 = fiber_create(65536, acceptor, (void*)1);
  fiber_sleep(0, 50000);                 /* both acceptors are now waiting */
  int c = socket(AF_INET, SOCK_STREAM, 0);
  if (connect(c, (struct sockaddr*)&a, sizeof a)) { perror("connect"); return 2; }
  fiber_sleep(0, 200000);
  if (eagain_seen) { printf("VIOLATION: a blocking accept() returned EAGAIN\n"); return 1; }
  /* release the second acceptor */
  int c2 = socket(AF_INET, SOCK_STREAM, 0); connect(c2, (struct sockaddr*)&a, sizeof a);
  fiber_join(f1, NULL); fiber_join(f2, NULL);
  printf("accepted=%d ok\n", accepted); return eagain_seen ? 1 : 0;
}
