/* Native witness for D1 (C10): three fibers that keep yielding on ONE kernel thread.  With fiber_scheduler_schedule pushing
 * onto the deque that is being drained (LIFO), two of them ping-pong and the third never runs.
 * build: gcc -O2 -std=gnu11 -DFIBER_STACK_SPLIT -fsplit-stack -I <tree>/include D1_yield_starvation.c <tree>/_build/libfiber.a -lpthread -ldl
 * exit 0 = every fiber ran a fair share, 1 = a ready fiber was bypassed indefinitely. */
#include <stdio.h>
#include "fiber_manager.h"
#define N 3
#define YIELDS 100000
static volatile long runs[N];
static volatile int stop;
static void* run(void* p) { long i = (long)p; while (!stop) { runs[i]++; fiber_yield(); } return NULL; }
int main(void) {
  fiber_manager_init(1);
  fiber_t* f[N];
  for (long i = 0; i < N; i++) f[i] = fiber_create(65536, &run, (void*)i);
  for (long k = 0; k < YIELDS; k++) fiber_yield();
  stop = 1;
  long mn = runs[0], mx = runs[0];
  for (int i = 1; i < N; i++) { if (runs[i] < mn) mn = runs[i]; if (runs[i] > mx) mx = runs[i]; }
  printf("runs %ld %ld %ld\n", runs[0], runs[1], runs[2]);
  if (mn * 4 < mx || mn < 10) { printf("VIOLATION: a ready fiber was bypassed while the others ran %ld times\n", mx); return 1; }
  for (int i = 0; i < N; i++) fiber_join(f[i], NULL);
  printf("fair\n");
  return 0;
}
