/* Native witness for D5 (C04): a joiner parked in fiber_join is woken by a later fiber_detach and its join reports SUCCESS although the
 * target's function has not returned (and a detached fiber must not be joinable).
 * exit 0 = join reported an error (or did not return before the target finished), 1 = join returned SUCCESS early. */
#include <stdio.h>
#include "fiber_manager.h"
#include "fiber_event.h"
static volatile int target_finished;
static volatile int join_ret = -2, join_returned_before_finish;
static fiber_t* target;
static void* target_fn(void* p) { fiber_sleep(0, 300000); target_finished = 1; return (void*)0x1234; }
static void* joiner_fn(void* p) { void* res = (void*)1; int r = fiber_join(target, &res); join_returned_before_finish = !target_finished; join_ret = r; return NULL; }
int main(void) {
  fiber_manager_init(1);
  target = fiber_create(65536, target_fn, NULL);
  fiber_t* j = fiber_create(65536, joiner_fn, NULL);
  fiber_sleep(0, 50000);            /* the joiner is now parked on the target */
  int d = fiber_detach(target);
  fiber_sleep(0, 100000);
  printf("detach=%d join_ret=%d returned_before_target_finished=%d\n", d, join_ret, join_returned_before_finish);
  if (join_ret == FIBER_SUCCESS && join_returned_before_finish) { printf("VIOLATION: fiber_join returned SUCCESS before the fiber's function returned (woken by fiber_detach)\n"); return 1; }
  fiber_sleep(0, 400000);
  printf("ok\n"); return 0;
}
