/* C01 — the fiber manager's suspend/resume protocol: fiber_manager_yield / fiber_manager_switch_to / fiber_manager_do_maintenance /
 * wait_in_mpsc_queue[_and_unlock] / wake_from_mpsc_queue / wait_in_mpmc_queue / wake_from_mpmc_queue / set_and_wait / clear_or_wait
 * (woven /repo/src/fiber_manager.c).  The context switch itself (fiber_context_swap) is C19; the scheduler is C10/C02; the queues C13/C17.
 *
 * The contract every blocking primitive relies on (C03-C07, C09, C11, C12 use it as their park/unpark contract):
 *   NOTHING that lets another thread resume, wake, unlock-for, signal or reclaim the suspending fiber happens before its context is saved:
 *   between entering yield and fiber_context_swap there is no scheduler_schedule, no queue push through the deferred slots, no mutex/spinlock
 *   release, no marker write and no destroy.  They are recorded in the manager's deferred-action slots instead, and
 *   fiber_manager_do_maintenance — run by whoever resumes on that kernel thread, AFTER the swap — performs each recorded action exactly once
 *   and clears the slot (SAVING_STATE_TO_WAIT -> WAITING first).
 *   A fiber that is not RUNNING (WAITING / SAVING / DONE) never returns from yield without having been switched away from.
 *   A RUNNING fiber that is switched away from is made READY and handed to the scheduler only through the deferred slot.
 *   Direct-push waiters (mpsc) mark themselves SAVING before they become poppable; a waker flips only WAITING -> READY and schedules the
 *   popped fiber exactly once (the scheduler skips a fiber that is still SAVING: C10).
 */
#include "verif_rt.h"
#include <stdlib.h>
#include <string.h>
#include "machine_specific.h"
#include "fiber.h"
#include "fiber_manager.h"
#include "fiber_scheduler.h"
#include "fiber_mutex.h"
#include "fiber_spinlock.h"
typedef struct {
  int swapped, swaps, early, bad;
  int scheds; fiber_t* sched1; fiber_t* sched2;
  int mpmc_pushes, mpsc_pushes, unlocks, spin_unlocks, destroys, ctx_destroys, frees, marker_writes, yields, creates, balances, pops, null_pops;
  fiber_manager_t* mig_m0; fiber_mutex_t* b_mu; fiber_spinlock_t* b_sp; void** b_loc;   /* the manager I migrated away from and what fiber B has put in its slots */
  int foreign; void* l_locb;
  fiber_state_t state0; int next_null; int kind, with_unlock, in_cw, cw_taken; void* value; void* l_cw;
  void* l_loc; fiber_state_t l_me_state;
} ghost_t;
ghost_t G;
#define K_PLAIN 0
#define K_MPSC 1
#define K_MPMC 2
#define K_SETWAIT 3
_Atomic(void*) CW_LOC;
fiber_t ME, NF, MF, OLD, DONEF, W1, W2;         /* me, the scheduler's next fiber, the maintenance fiber, the resumed manager's old/done fibers, waiters */
fiber_manager_t VM0, VM1;
fiber_spinlock_t SL_B; void* LOC_B; int MIGRATING; fiber_mutex_t MX_B;   /* a later fiber B's deferred actions (see fiber_mutex_unlock_internal below) */
fiber_mutex_t MX; fiber_spinlock_t SL; mpmc_fifo_t MQ; mpmc_fifo_node_t MQN; mpsc_fifo_t SQ; mpsc_fifo_node_t SN, SN1, SN2; void* LOC; hazard_pointer_thread_record_t HREC;
static void stub_mpmc_push(hazard_pointer_thread_record_t* h, mpmc_fifo_t* f, mpmc_fifo_node_t* n);
static void* stub_mpmc_trypop(hazard_pointer_thread_record_t* h, mpmc_fifo_t* f);
static void stub_mpsc_push(mpsc_fifo_t* f, mpsc_fifo_node_t* n);
static mpsc_fifo_node_t* stub_mpsc_trypop(mpsc_fifo_t* f);
static void stub_free(void* p);
#define mpmc_fifo_push(h, f, n) stub_mpmc_push((h), (f), (n))
#define mpmc_fifo_trypop(h, f) stub_mpmc_trypop((h), (f))
#define mpsc_fifo_push(f, n) stub_mpsc_push((f), (n))
#define mpsc_fifo_trypop(f) stub_mpsc_trypop(f)
#define free(p) stub_free(p)
/* same-file callees used by contract (the weaver redirects the CALLS listed in groups.py to stub_<name>) */
static void stub_fiber_manager_yield(fiber_manager_t* m);
static hazard_pointer_thread_record_t* stub_fiber_manager_get_hazard_record(fiber_manager_t* m);
static mpmc_fifo_node_t* stub_fiber_manager_get_mpmc_node(void);
static __thread fiber_manager_t* fiber_the_manager;   /* (tentative: defined further down in fiber_manager.c, named by the loop contract of yield) */
#define FTM_IS(m) ((m) == &VM0 || (m) == &VM1)
#include "src/fiber_manager.c" /* woven */
#undef free
static fiber_manager_t* canonm(fiber_manager_t* m) { return m == &VM0 ? &VM0 : m == &VM1 ? &VM1 : 0; }
static void spec_snap(void) { G.l_locb = LOC_B; G.l_loc = LOC; G.l_me_state = ME.state; G.l_cw = *(void**)&CW_LOC; }
static void spec_step(int site) {
  if (LOC_B != G.l_locb) { G.foreign++; G.l_locb = LOC_B; }
  if (LOC != G.l_loc) { G.marker_writes++; if (!G.swapped) G.early = 1; }
  if (*(void**)&CW_LOC != G.l_cw) { if (*(void**)&CW_LOC != 0 || G.cw_taken) G.bad = 1; G.cw_taken++; }
}
static void spec_env(int site) {}
static void spec_read(int site, void* addr) {}
#include "verif_point.inc"
static void PUB(void) { verif_sync(-9); if (!G.swapped) G.early = 1; }   /* (a function, not a do-while(0) macro: that would be a loop inside the contracted loop) */
/* ---- callees by contract ---- */
void fiber_context_swap(fiber_context_t* from, fiber_context_t* to) {
  verif_sync(-2);
  fiber_manager_t* m = canonm(fiber_the_manager);
  fiber_t* nf = G.next_null ? &MF : &NF;
  /* at the switch: bookkeeping done, nothing published */
  if (!m || from != &ME.context || to != &nf->context || m->current_fiber != nf || m->old_fiber != &ME || nf->state != FIBER_STATE_RUNNING) G.bad = 1;
  if (G.state0 == FIBER_STATE_RUNNING && !G.swaps) { if (ME.state != FIBER_STATE_READY || m->to_schedule != &ME) G.bad = 1; }
  else if (!G.swaps) { if (ME.state != G.state0 || m->to_schedule != 0) G.bad = 1; }
  if (G.scheds || G.mpmc_pushes || G.mpsc_pushes || G.unlocks || G.spin_unlocks || G.destroys || G.marker_writes) G.early = 1;
  G.swapped = 1; if (G.swaps < 100) G.swaps++;
  /* ... time passes: I am resumed later, on any kernel thread, by a fiber that switched to me: that manager's current fiber is me, its old fiber
     and deferred slots are whatever my predecessor left there */
  fiber_manager_t* r = verif_bool() ? &VM0 : &VM1; fiber_the_manager = r;
  r->current_fiber = &ME; ME.state = FIBER_STATE_RUNNING; r->old_fiber = &OLD; r->maintenance_fiber = verif_bool() ? &MF : 0; r->scheduler = (fiber_scheduler_t*)r;
  OLD.state = verif_bool() ? FIBER_STATE_SAVING_STATE_TO_WAIT : verif_bool() ? FIBER_STATE_WAITING : verif_bool() ? FIBER_STATE_READY : FIBER_STATE_DONE;
  r->done_fiber = (OLD.state == FIBER_STATE_DONE && verif_bool()) ? &OLD : 0;
  r->to_schedule = OLD.state == FIBER_STATE_READY ? &OLD : 0;
  r->mpmc_to_push.fifo = verif_bool() ? &MQ : 0; r->mpmc_to_push.node = &MQN;
  r->mpsc_to_push.fifo = verif_bool() ? &SQ : 0; r->mpsc_to_push.node = &SN;
  r->mutex_to_unlock = verif_bool() ? &MX : 0; r->spinlock_to_unlock = verif_bool() ? &SL : 0;
  r->set_wait_location = verif_bool() ? &LOC : 0; r->set_wait_value = (void*)verif_u64();
  r->yield_count = verif_u64();
  /* the counters of post-swap actions start now */
  G.scheds = G.mpmc_pushes = G.mpsc_pushes = G.unlocks = G.spin_unlocks = G.destroys = G.ctx_destroys = G.frees = G.marker_writes = 0;
  spec_snap();
}
fiber_t* fiber_scheduler_next(fiber_scheduler_t* s) { verif_sync(-3);
  /* a new suspension attempt starts here: what maintenance did after the previous resume is over and done */
  G.swapped = 0; G.scheds = G.mpmc_pushes = G.mpsc_pushes = G.unlocks = G.spin_unlocks = G.destroys = G.ctx_destroys = G.frees = G.marker_writes = 0;
  if (!FTM_IS((fiber_manager_t*)s) || (fiber_manager_t*)s != fiber_the_manager) G.bad = 1; G.next_null = verif_bool(); NF.state = FIBER_STATE_READY; return G.next_null ? 0 : &NF; }
void fiber_scheduler_schedule(fiber_scheduler_t* s, fiber_t* f) { PUB(); if (G.scheds == 0) G.sched1 = f; else G.sched2 = f; if (G.scheds < 100) G.scheds++; }
void fiber_scheduler_load_balance(fiber_scheduler_t* s) { if (G.balances < 100) G.balances++; }
fiber_t* fiber_create_no_sched(size_t st, fiber_run_function_t fn, void* p) { if (G.creates < 100) G.creates++; if (fn != &fiber_manager_thread_func) G.bad = 1; return &MF; }
static void clear_slots(fiber_manager_t* m);
/* unlocking a contended mutex wakes a waiter, and while that waiter is still between announcing itself and enqueueing, fiber_manager_wake_from_mpsc_queue
   YIELDS: the caller may be switched away from in the middle of the unlock, stolen, and resumed on another kernel thread.  Meanwhile the kernel
   thread it started on goes on: the fiber it switched to has completed this maintenance (the slots are empty), and a LATER fiber B that is just
   suspending there has filled the slots with its own deferred actions — B's context is NOT saved yet. */
int fiber_mutex_unlock_internal(fiber_mutex_t* m) {
  PUB(); if (m != &MX) G.bad = 1; G.unlocks++;
  if (MIGRATING) {
    fiber_manager_t* m0 = canonm(fiber_the_manager); fiber_manager_t* m1 = m0 == &VM0 ? &VM1 : &VM0;
    clear_slots(m0); m0->spinlock_to_unlock = verif_bool() ? &SL_B : 0; m0->set_wait_location = verif_bool() ? &LOC_B : 0; m0->set_wait_value = (void*)verif_u64();
    m0->mutex_to_unlock = verif_bool() ? &MX_B : 0;
    G.mig_m0 = m0; G.b_mu = m0->mutex_to_unlock; G.b_sp = m0->spinlock_to_unlock; G.b_loc = m0->set_wait_location;
    m0->to_schedule = 0; m0->done_fiber = 0;
    fiber_the_manager = m1; m1->current_fiber = &ME; clear_slots(m1);   /* (my own resume there was followed by that thread's maintenance) */
    G.l_locb = LOC_B;
  }
  return FIBER_SUCCESS;
}
int fiber_spinlock_unlock(fiber_spinlock_t* s) { PUB(); if (s == &SL_B) { G.foreign++; return FIBER_SUCCESS; } if (s != &SL) G.bad = 1; G.spin_unlocks++; return FIBER_SUCCESS; }
void fiber_context_destroy(fiber_context_t* c) { PUB(); G.ctx_destroys++; if (c != &OLD.context && c != &DONEF.context) G.bad = 1; }
static void stub_free(void* p) { G.frees++; }
static void stub_mpmc_push(hazard_pointer_thread_record_t* h, mpmc_fifo_t* f, mpmc_fifo_node_t* n) { PUB(); if (h != &HREC || f != &MQ || n != &MQN) G.bad = 1; G.mpmc_pushes++; }
static hazard_pointer_thread_record_t* stub_fiber_manager_get_hazard_record(fiber_manager_t* m) { return &HREC; }
static mpmc_fifo_node_t* stub_fiber_manager_get_mpmc_node(void) { return &MQN; }
static fiber_manager_t* any_mgr(void) { fiber_manager_t* m = verif_bool() ? &VM0 : &VM1; fiber_the_manager = m; m->scheduler = (fiber_scheduler_t*)m; m->current_fiber = &ME; return m; }
static void clear_slots(fiber_manager_t* m) { m->done_fiber = 0; m->to_schedule = 0; m->mpmc_to_push.fifo = 0; m->mpmc_to_push.node = 0; m->mpsc_to_push.fifo = 0; m->mpsc_to_push.node = 0; m->mutex_to_unlock = 0; m->spinlock_to_unlock = 0; m->set_wait_location = 0; m->set_wait_value = 0; }
static int slots_clear(fiber_manager_t* m) { return !m->done_fiber && !m->to_schedule && !m->mpmc_to_push.fifo && !m->mpsc_to_push.fifo && !m->mutex_to_unlock && !m->spinlock_to_unlock && !m->set_wait_location; }
static void init_any(void) {
  G.swapped = G.swaps = G.early = G.bad = G.scheds = G.mpmc_pushes = G.mpsc_pushes = G.unlocks = G.spin_unlocks = G.destroys = G.ctx_destroys = G.frees = G.marker_writes = 0;
  G.yields = G.creates = G.balances = G.pops = G.null_pops = 0; G.foreign = 0; MIGRATING = 0; G.kind = K_PLAIN; G.with_unlock = G.in_cw = G.cw_taken = 0; G.value = 0; G.sched1 = G.sched2 = 0; G.next_null = 0;
  LOC = (void*)verif_u64();
  clear_slots(&VM0); clear_slots(&VM1); VM0.scheduler = (fiber_scheduler_t*)&VM0; VM1.scheduler = (fiber_scheduler_t*)&VM1; VM0.maintenance_fiber = verif_bool() ? &MF : 0; VM1.maintenance_fiber = verif_bool() ? &MF : 0; VM0.yield_count = verif_u64(); VM1.yield_count = verif_u64();
  fiber_manager_state = FIBER_MANAGER_STATE_STARTED;
  spec_snap();
}
/* ---- yield (real), switch_to (real, inlined), do_maintenance (real) ---- */
void h_yield(void) {
  init_any();
  fiber_manager_t* m = any_mgr();
  unsigned k = verif_pick(4); ME.state = k == 0 ? FIBER_STATE_RUNNING : k == 1 ? FIBER_STATE_WAITING : k == 2 ? FIBER_STATE_SAVING_STATE_TO_WAIT : FIBER_STATE_DONE; G.state0 = ME.state;
  /* the slots the caller prepared for its own suspension (any combination) */
  m->mpmc_to_push.fifo = verif_bool() ? &MQ : 0; m->mpmc_to_push.node = &MQN; m->mutex_to_unlock = verif_bool() ? &MX : 0; m->spinlock_to_unlock = verif_bool() ? &SL : 0;
  m->set_wait_location = verif_bool() ? &LOC : 0; m->set_wait_value = (void*)verif_u64(); m->done_fiber = (G.state0 == FIBER_STATE_DONE) ? &ME : 0;
  MIGRATING = verif_bool();   /* the deferred mutex release of my predecessor may yield and move me to another kernel thread in the middle of maintenance */
  spec_snap();
  fiber_manager_yield(m); verif_sync(-1);
  VASSERT(!G.bad, "H: C01 at every context switch the bookkeeping is complete: current/old fiber recorded, the next fiber RUNNING, a RUNNING predecessor made READY and parked in the to_schedule slot (a non-RUNNING one keeps its state and is not scheduled)");
  VASSERT(!G.early, "H: C01 nothing that exposes the suspending fiber (schedule, queue push, mutex/spinlock release, marker write, destroy) happens before its context is saved");
  if (G.state0 != FIBER_STATE_RUNNING) VASSERT(G.swaps >= 1, "H: C01 a fiber that is WAITING / SAVING / DONE never returns from yield without having been switched away from");
  if (G.swaps) VASSERT(slots_clear(canonm(fiber_the_manager)) && ME.state == FIBER_STATE_RUNNING, "H: C01 after being resumed the fiber has performed, once, every deferred action its predecessor left on this kernel thread (maintenance runs after the swap)");
  else VASSERT(ME.state == FIBER_STATE_RUNNING && G.scheds == 0, "H: C01 with nothing else to run a RUNNING fiber simply continues");
  VCANARY("yield can return");
}
void h_maintenance(void) {
  init_any();
  fiber_manager_t* m = any_mgr(); G.swapped = 1;   /* maintenance is what runs after a swap */
  unsigned k = verif_pick(4); OLD.state = k == 0 ? FIBER_STATE_READY : k == 1 ? FIBER_STATE_WAITING : k == 2 ? FIBER_STATE_SAVING_STATE_TO_WAIT : FIBER_STATE_DONE;
  fiber_state_t os = OLD.state; m->old_fiber = &OLD;
  int d = verif_bool(), s = (os == FIBER_STATE_READY), q1 = verif_bool(), q2 = verif_bool(), mu = verif_bool(), sp = verif_bool(), w = verif_bool();
  void* v = (void*)verif_u64(); void* loc0 = LOC;
  DONEF.state = FIBER_STATE_DONE; DONEF.mpsc_fifo_node = &SN2;
  m->done_fiber = d ? &DONEF : 0; m->to_schedule = s ? &OLD : 0; m->mpmc_to_push.fifo = q1 ? &MQ : 0; m->mpmc_to_push.node = q1 ? &MQN : 0;
  m->mpsc_to_push.fifo = q2 ? &SQ : 0; m->mpsc_to_push.node = q2 ? &SN : 0; m->mutex_to_unlock = mu ? &MX : 0; m->spinlock_to_unlock = sp ? &SL : 0;
  m->set_wait_location = w ? &LOC : 0; m->set_wait_value = v;
  spec_snap();
  fiber_manager_do_maintenance(); verif_sync(-1);
  VASSERT(!G.bad && slots_clear(m), "H: C01 maintenance clears every deferred slot");
  VASSERT(OLD.state == (os == FIBER_STATE_SAVING_STATE_TO_WAIT ? FIBER_STATE_WAITING : os), "H: C01 maintenance completes the predecessor's suspension: SAVING_STATE_TO_WAIT -> WAITING, nothing else");
  VASSERT(G.scheds == s && (!s || G.sched1 == &OLD) && G.mpmc_pushes == q1 && G.mpsc_pushes == q2 && G.unlocks == mu && G.spin_unlocks == sp && G.ctx_destroys == d && G.frees == 2 * d,
          "H: C01 maintenance performs each recorded action exactly once, with the recorded arguments, and none that was not recorded");
  VASSERT(LOC == (w ? v : loc0) && G.marker_writes == (w && v != loc0), "H: C01 the wake marker is written iff it was recorded, with the recorded value");
  VCANARY("maintenance can return");
}
void h_maintenance_migrating(void) {
  init_any();
  fiber_manager_t* m = any_mgr(); G.swapped = 1; MIGRATING = 1;
  OLD.state = FIBER_STATE_WAITING; m->old_fiber = &OLD;
  /* the predecessor parked with a deferred mutex release (condition wait, multi channel): that is the only slot it can have set besides the queue pushes */
  m->mutex_to_unlock = &MX; m->mpsc_to_push.fifo = verif_bool() ? &SQ : 0; m->mpsc_to_push.node = &SN;
  LOC_B = (void*)verif_u64(); G.mig_m0 = 0; spec_snap();
  fiber_manager_do_maintenance(); verif_sync(-1);
  VASSERT(!G.bad && G.unlocks == 1, "H: C01 maintenance releases the recorded mutex once");
  VASSERT(G.mig_m0 != 0 && G.mig_m0->mutex_to_unlock == G.b_mu && G.mig_m0->spinlock_to_unlock == G.b_sp && G.mig_m0->set_wait_location == G.b_loc,
          "H: C01 maintenance leaves the slots of the manager it migrated away from alone: they hold the deferred actions of a fiber whose context is not saved yet (erasing one loses that fiber's release)");
  VASSERT(G.foreign == 0, "H: C01 maintenance performs no deferred action of ANOTHER fiber: after the one step that can yield and migrate (the mutex release) it does not go back to the slots of the manager it started on — they may already hold the actions of a fiber whose context is not saved yet");
  VCANARY("maintenance (migrating unlock) can return");
}
/* ---- the blocking helpers (yield by contract) ---- */
static void stub_fiber_manager_yield(fiber_manager_t* m) {
  verif_sync(-5);
  if (m != fiber_the_manager || m->current_fiber != &ME) G.bad = 1;
  /* what the helper must have handed over before it suspends */
  if (G.kind == K_MPSC && (ME.state != FIBER_STATE_SAVING_STATE_TO_WAIT || G.mpsc_pushes != 1 || m->mutex_to_unlock != (G.with_unlock ? &MX : 0))) G.bad = 1;
  if (G.kind == K_MPMC && (ME.state != FIBER_STATE_WAITING || m->mpmc_to_push.fifo != &MQ || m->mpmc_to_push.node != &MQN || MQN.value != (void*)&ME)) G.bad = 1;
  if (G.kind == K_SETWAIT && (ME.state != FIBER_STATE_WAITING || m->set_wait_location != &LOC || m->set_wait_value != G.value)) G.bad = 1;
  if (G.kind == K_PLAIN && ME.state != FIBER_STATE_RUNNING) G.bad = 1;
  if (G.yields < 100) G.yields++;
  if (G.kind == K_PLAIN && G.in_cw && verif_bool()) CW_LOC = (void*)&W1;   /* (clear_or_wait: the other party stores its value while I am away) */
  /* by its contract: switched away (if not RUNNING), resumed later on any kernel thread; my deferred actions were performed after the swap */
  /* (also a RUNNING fiber that yields may be switched away from, stolen and resumed on another kernel thread: the manager may differ afterwards) */
  { fiber_manager_t* r = any_mgr(); ME.state = FIBER_STATE_RUNNING; }
  spec_snap();
}
static int pushes_seen_state_ok;
static void stub_mpsc_push(mpsc_fifo_t* f, mpsc_fifo_node_t* n) {
  verif_sync(-6);
  if (G.swapped) { if (f != &SQ || n != &SN) G.bad = 1; G.mpsc_pushes++; return; }     /* maintenance's deferred push */
  /* direct push by a waiter: it must already be SAVING (poppable from now on), the node must carry it, and it must have let go of the node */
  if (f != &SQ || n != &SN || SN.data != &ME || ME.mpsc_fifo_node != 0 || ME.state != FIBER_STATE_SAVING_STATE_TO_WAIT || G.yields) G.bad = 1;
  G.mpsc_pushes++;
}
void h_wait_mpsc(void) {
  init_any(); fiber_manager_t* m = any_mgr(); ME.state = FIBER_STATE_RUNNING; ME.mpsc_fifo_node = &SN; SN.data = 0;
  int with_unlock = verif_bool(); G.kind = K_MPSC; G.with_unlock = with_unlock;
  if (with_unlock) fiber_manager_wait_in_mpsc_queue_and_unlock(m, &SQ, &MX); else fiber_manager_wait_in_mpsc_queue(m, &SQ);
  verif_sync(-1);
  VASSERT(!G.bad && G.mpsc_pushes == 1 && G.yields == 1, "H: C01 a direct-push waiter marks itself SAVING_STATE_TO_WAIT BEFORE it becomes poppable, pushes its node once, then yields once");
  VASSERT(G.unlocks == 0 && G.scheds == 0 && G.marker_writes == 0, "H: C01 the waiter itself releases nothing: the mutex is only named in the deferred slot");
  VCANARY("wait_in_mpsc can return");
}
static mpsc_fifo_node_t* stub_mpsc_trypop(mpsc_fifo_t* f) {
  if (f != &SQ) G.bad = 1;
  if (G.pops >= 2 || (G.null_pops < 2 && verif_bool())) { if (G.pops >= 2) G.bad = 1; G.null_pops++; return 0; }
  G.pops++; return G.pops == 1 ? &SN1 : &SN2;
}
static fiber_state_t w1s, w2s;
void h_wake_mpsc(void) {
  init_any(); fiber_manager_t* m = any_mgr(); ME.state = FIBER_STATE_RUNNING; G.swapped = 1; /* (not suspending: schedules are legitimate) */
  SN1.data = &W1; SN2.data = &W2; W1.mpsc_fifo_node = 0; W2.mpsc_fifo_node = 0;
  W1.state = w1s = verif_bool() ? FIBER_STATE_WAITING : FIBER_STATE_SAVING_STATE_TO_WAIT; W2.state = w2s = verif_bool() ? FIBER_STATE_WAITING : FIBER_STATE_SAVING_STATE_TO_WAIT;
  int count = (int)verif_pick(3);
  int r = fiber_manager_wake_from_mpsc_queue(m, &SQ, count); verif_sync(-1);
  VASSERT(!G.bad && r == G.pops && G.scheds == G.pops && (count == 0 ? G.pops <= 1 : G.pops == count), "B: C01 wake_from_mpsc wakes exactly `count` waiters (count 0: at most one), each popped node's fiber scheduled exactly once");
  if (G.pops >= 1) VASSERT(G.sched1 == &W1 && W1.mpsc_fifo_node == &SN1 && W1.state == (w1s == FIBER_STATE_WAITING ? FIBER_STATE_READY : w1s), "B: C01 the waker gives the node back, flips only WAITING -> READY (a fiber still SAVING keeps its state: the scheduler will not run it before its maintenance) and schedules it");
  if (G.pops >= 2) VASSERT(G.sched2 == &W2 && W2.mpsc_fifo_node == &SN2 && W2.state == (w2s == FIBER_STATE_WAITING ? FIBER_STATE_READY : w2s), "B: C01 (second waiter) same");
  VCANARY("wake_from_mpsc can return");
}
void h_wait_mpmc(void) {
  init_any(); fiber_manager_t* m = any_mgr(); ME.state = FIBER_STATE_RUNNING; MQN.value = 0; G.kind = K_MPMC;
  fiber_manager_wait_in_mpmc_queue(m, &MQ); verif_sync(-1);
  VASSERT(!G.bad && G.yields == 1 && G.mpmc_pushes == 0, "H: C01 an mpmc waiter never pushes itself: it records (fifo, node) in the deferred slot, is WAITING, and yields");
  VCANARY("wait_in_mpmc can return");
}
static void* stub_mpmc_trypop(hazard_pointer_thread_record_t* h, mpmc_fifo_t* f) {
  if (h != &HREC || f != &MQ) G.bad = 1;
  if (G.pops >= 2 || (G.null_pops < 2 && verif_bool())) { if (G.pops >= 2) G.bad = 1; G.null_pops++; return 0; }
  G.pops++; return G.pops == 1 ? (void*)&W1 : (void*)&W2;
}
void h_wake_mpmc(void) {
  init_any(); fiber_manager_t* m = any_mgr(); ME.state = FIBER_STATE_RUNNING; G.swapped = 1;
  W1.state = W2.state = FIBER_STATE_WAITING;
  int count = (int)verif_pick(2);   /* the two modes the library uses (semaphore post: 0); see DESIGN.md for count >= 2 */
  int r = fiber_manager_wake_from_mpmc_queue(m, &MQ, count); verif_sync(-1);
  VASSERT(!G.bad && r == G.pops && G.scheds == G.pops && (count == 0 ? G.pops <= 1 : G.pops == 1), "B: C01 wake_from_mpmc (count 0 or 1) wakes at most / exactly one waiter, scheduled exactly once");
  if (G.pops >= 1) VASSERT(G.sched1 == &W1 && W1.state == FIBER_STATE_READY, "B: C01 a popped waiter is made READY and scheduled");
  if (G.pops >= 2) VASSERT(G.sched2 == &W2 && W2.state == FIBER_STATE_READY, "B: C01 (second waiter) same");
  VCANARY("wake_from_mpmc can return");
}
void h_set_and_wait(void) {
  init_any(); fiber_manager_t* m = any_mgr(); ME.state = FIBER_STATE_RUNNING; void* v = (void*)verif_u64(); VASSUME(v != 0); void* loc0 = LOC; G.kind = K_SETWAIT; G.value = v;
  fiber_manager_set_and_wait(m, &LOC, v); verif_sync(-1);
  VASSERT(!G.bad && G.yields == 1 && G.marker_writes == 0 && LOC == loc0, "H: C01 set_and_wait does not write the location itself: it records (location, value) in the deferred slot, is WAITING, and yields once");
  VCANARY("set_and_wait can return");
}
void h_clear_or_wait(void) {
  init_any(); fiber_manager_t* m = any_mgr(); ME.state = FIBER_STATE_RUNNING; G.kind = K_PLAIN; G.in_cw = 1; CW_LOC = verif_bool() ? (void*)&W1 : 0; spec_snap();
  void* r = fiber_manager_clear_or_wait(m, &CW_LOC); verif_sync(-1);
  VASSERT(!G.bad && r == (void*)&W1 && G.cw_taken == 1, "H: C01 clear_or_wait returns exactly the non-NULL value its exchange removed from the location (taken once), yielding in between");
  VCANARY("clear_or_wait can return");
}
/* ---- the mpmc node pool (fiber_manager_get_mpmc_node / fiber_manager_return_mpmc_node*, real lockfree ring buffer underneath; sequential:
 * the ring's own concurrency is C16).  The semaphore's wait queue (C06) and every mpmc park (wait_in_mpmc_queue) draw their nodes from here:
 * a node handed out is not handed out again until it has been given back; a node given back is reused; every node carries the pool's reclaim
 * function (the hazard-pointer layer calls it when the node is safe to reuse) and the hazard header sits at offset 0 (the pool stores
 * hazard_node_t* and hands out mpmc_fifo_node_t*).  Allocation failure is not explored: the pool does not handle it (observation, DESIGN 11.5). */
void h_node_pool(void) {
  fiber_free_mpmc_nodes = 0;
  VASSERT(__builtin_offsetof(mpmc_fifo_node_t, hazard) == 0, "H: C16 pool: the hazard header is the first member of an mpmc node (the pool converts between the two pointer types)");
  mpmc_fifo_node_t* a = fiber_manager_get_mpmc_node();
  VASSERT(a != 0 && fiber_free_mpmc_nodes != 0 && a->hazard.gc_function == &fiber_manager_return_mpmc_node_internal, "H: C16 pool: an empty pool hands out a fresh node that carries the pool's reclaim function");
  mpmc_fifo_node_t* b = fiber_manager_get_mpmc_node();
  VASSERT(b != 0 && b != a, "H: C16 pool: a node in use is not handed out a second time");
  fiber_manager_return_mpmc_node(a);
  mpmc_fifo_node_t* c = fiber_manager_get_mpmc_node();
  VASSERT(c == a && c->hazard.gc_function == &fiber_manager_return_mpmc_node_internal, "H: C16 pool: a node given back is the next one handed out (nothing is lost, its reclaim function intact)");
  mpmc_fifo_node_t* d = fiber_manager_get_mpmc_node();
  VASSERT(d != 0 && d != a && d != b, "H: C16 pool: a node given back once is handed out once");
  VCANARY("node pool can return");
}
