/* C01 — the completion path: fiber_go_function / fiber_join_routine (woven /repo/src/fiber.c).
 *   A fresh fiber first performs the maintenance its predecessor left (it was switched to like any other fiber), runs its function exactly once,
 *   publishes its completion (fiber_mark_completed: C04), records ITSELF as done_fiber on the manager of the thread it is on, and yields.
 *   It never destroys itself and never returns from that yield: its stack and control block are reclaimed by its successor, after the switch
 *   (fiber_manager_do_maintenance, manager.c h_maintenance), never while still in use.
 */
#include "verif_rt.h"
#include <stdlib.h>
#include "fiber.h"
#include "fiber_manager.h"
typedef struct { int maint, runs, marked, yields, destroys, frees, bad; void* result; void* param; int order; } ghost_t;
ghost_t G;
fiber_manager_t VM0, VM1; fiber_manager_t* CURM;
fiber_t ME;
static void stub_free(void* p) { G.frees++; }
#define free(p) stub_free(p)
static void stub_fiber_mark_completed(fiber_t* f, void* result);
#include "src/fiber.c" /* woven */
#undef free
static void spec_snap(void) {}
static void spec_step(int site) {}
static void spec_env(int site) {}
static void spec_read(int site, void* addr) {}
#include "verif_point.inc"
fiber_manager_t* fiber_manager_get(void) { return CURM; }
void fiber_manager_do_maintenance(void) { if (G.runs || G.marked || G.yields) G.bad = 1; G.maint++; }
static void* the_fn(void* p) {
  if (p != G.param || G.maint != 1 || G.marked || G.yields) G.bad = 1;
  G.runs++; CURM = verif_bool() ? &VM0 : &VM1;   /* the user function may block and resume on another kernel thread */
  return G.result;
}
static void stub_fiber_mark_completed(fiber_t* f, void* result) {
  if (f != &ME || result != G.result || G.runs != 1 || G.marked || G.yields) G.bad = 1;
  G.marked++; ME.state = FIBER_STATE_DONE; CURM = verif_bool() ? &VM0 : &VM1;   /* (it may park for a joiner and resume elsewhere) */
}
void fiber_manager_yield(fiber_manager_t* m) {
  /* the last thing a finished fiber does: it is DONE, it is recorded as done_fiber of the manager it yields on, nothing was destroyed */
  if (m != CURM || !G.marked || ME.state != FIBER_STATE_DONE || m->done_fiber != &ME || G.destroys || G.frees || G.yields) G.bad = 1;
  G.yields++;
}
void fiber_destroy(fiber_t* f) { G.destroys++; }
void fiber_context_destroy(fiber_context_t* c) { G.destroys++; }
int fiber_context_init(fiber_context_t* c, size_t s, fiber_run_function_t f, void* p) { return FIBER_SUCCESS; }
int fiber_context_init_from_thread(fiber_context_t* c) { return FIBER_SUCCESS; }
void h_go(void) {
  G.maint = G.runs = G.marked = G.yields = G.destroys = G.frees = G.bad = 0; G.result = (void*)verif_u64(); G.param = (void*)verif_u64();
  CURM = verif_bool() ? &VM0 : &VM1; VM0.done_fiber = 0; VM1.done_fiber = 0;
  ME.run_function = &the_fn; ME.param = G.param; ME.state = FIBER_STATE_RUNNING;
  fiber_go_function(&ME);   /* (in the real runtime the final yield never returns; the contract stub does, so the tail of the function is reached) */
  VASSERT(!G.bad && G.maint == 1 && G.runs == 1 && G.marked == 1 && G.yields == 1, "H: C01 a fiber first performs its predecessor's maintenance, runs its function once, publishes its completion, records itself as done_fiber and yields — in this order");
  VASSERT(G.destroys == 0 && G.frees == 0, "H: C01 a finished fiber never destroys or frees itself: reclamation is left to its successor, after the switch");
  VCANARY("go_function reaches its final yield");
}
