HELPER_STUBS = ['fiber_manager_yield', 'fiber_manager_get_hazard_record', 'fiber_manager_get_mpmc_node']
FNS = ['fiber_manager_yield', 'fiber_manager_switch_to', 'fiber_manager_do_maintenance', 'fiber_destroy', 'fiber_manager_get',
       'fiber_manager_wait_in_mpsc_queue', 'fiber_manager_wait_in_mpsc_queue_and_unlock', 'fiber_manager_wake_from_mpsc_queue',
       'fiber_manager_wait_in_mpmc_queue', 'fiber_manager_wake_from_mpmc_queue', 'fiber_manager_set_and_wait', 'fiber_manager_clear_or_wait']
WEAVE = [dict(file='src/fiber_manager.c', fns=FNS, loops='loops.json', split_rmw=False,
              stub_calls={'fiber_manager_do_maintenance': ['fiber_manager_get_hazard_record'],
                          'fiber_manager_wait_in_mpsc_queue': HELPER_STUBS, 'fiber_manager_wake_from_mpsc_queue': HELPER_STUBS,
                          'fiber_manager_wait_in_mpmc_queue': HELPER_STUBS, 'fiber_manager_wake_from_mpmc_queue': HELPER_STUBS,
                          'fiber_manager_set_and_wait': HELPER_STUBS, 'fiber_manager_clear_or_wait': HELPER_STUBS})]
WEAVE += [dict(file='src/fiber.c', fns=['fiber_go_function', 'fiber_join_routine'], split_rmw=False,
               stub_calls={'fiber_join_routine': ['fiber_mark_completed']})]
LF = ['-DVERIF_LOOP_FLAG']
GROUPS = [
    dict(name='yield_switch', tu='manager.c', harness='h_yield', mode='H', loop_contracts=True, defs=LF, functions=['fiber_manager_yield', 'fiber_manager_switch_to', 'fiber_manager_do_maintenance', 'fiber_destroy'], timeout=900),
    dict(name='node_pool', tu='manager.c', harness='h_node_pool', mode='H', defs=LF, functions=['fiber_manager_get_mpmc_node', 'fiber_manager_return_mpmc_node', 'fiber_manager_return_mpmc_node_internal', 'lockfree_ring_buffer_create', 'lockfree_ring_buffer_trypush', 'lockfree_ring_buffer_trypop'],
         unwind=2, exact_unwind=True, cbmc_flags=['--no-malloc-may-fail'], timeout=600),
    dict(name='maintenance', tu='manager.c', harness='h_maintenance', mode='H', defs=LF, functions=['fiber_manager_do_maintenance', 'fiber_destroy'], unwind=2, exact_unwind=True),
    dict(name='maintenance_migrating_unlock', tu='manager.c', harness='h_maintenance_migrating', mode='H', defs=LF, functions=['fiber_manager_do_maintenance', 'fiber_destroy'], unwind=2, exact_unwind=True),
    dict(name='wait_in_mpsc', tu='manager.c', harness='h_wait_mpsc', mode='H', defs=LF, functions=['fiber_manager_wait_in_mpsc_queue', 'fiber_manager_wait_in_mpsc_queue_and_unlock'], unwind=2, exact_unwind=True),
    dict(name='wake_from_mpsc', tu='manager.c', harness='h_wake_mpsc', mode='H', defs=LF, functions=['fiber_manager_wake_from_mpsc_queue'], unwind=6, bounded=True, bound='count <= 2, at most 2 empty pops'),
    dict(name='wait_in_mpmc', tu='manager.c', harness='h_wait_mpmc', mode='H', defs=LF, functions=['fiber_manager_wait_in_mpmc_queue'], unwind=2, exact_unwind=True),
    dict(name='wake_from_mpmc', tu='manager.c', harness='h_wake_mpmc', mode='H', defs=LF, functions=['fiber_manager_wake_from_mpmc_queue'], unwind=6, bounded=True, bound='count <= 2, at most 2 empty pops'),
    dict(name='set_and_wait', tu='manager.c', harness='h_set_and_wait', mode='H', defs=LF, functions=['fiber_manager_set_and_wait'], unwind=2, exact_unwind=True),
    dict(name='completion', tu='exit.c', harness='h_go', mode='H', defs=LF, functions=['fiber_go_function', 'fiber_join_routine'], unwind=2, exact_unwind=True),
    dict(name='lemmas', tu='lemmas.c', kind='lemmas', harness='', no_native='pure lemma'),
    dict(name='clear_or_wait', tu='manager.c', harness='h_clear_or_wait', mode='H', loop_contracts=True, defs=LF, functions=['fiber_manager_clear_or_wait'], unwind=2, exact_unwind=True),
]
# publication sites outside fiber_manager.c that the property also rests on (anchors: fiber_signal.h, fiber_multi_channel.h, fiber.c): the same
# obligation groups that C11 / C20 / C04 run, run here as well (marker cleared before registering and written only through the deferred slot; the
# raiser waits for the marker; the multi channel names its lock for release after the switch; the finisher parks before it can be woken)
IMPORTS = [dict(prop='C11', groups=['signal_wait', 'signal_raise', 'multi_send', 'multi_receive']),
           dict(prop='C20', groups=['msig_wait', 'msig_raise', 'msig_raise_strict']),
           dict(prop='C04', groups=['mark_completed', 'detach', 'join']),
           # descriptor waits: the waiter links itself and switches out under the descriptor's spinlock; the poller / close must hold it to walk the list
           dict(prop='C08', groups=['ev_wait_for_event', 'ev_poll_fd_event', 'ev_fd_closed'])]
TRUSTED = ['fiber_context_swap: by contract (C19: saves the caller\'s callee-saved state and stack pointer, resumes the target); the stub havocs the resumed manager\'s old fiber and deferred slots',
           'fiber_scheduler_next/schedule/load_balance (C10, C02), mpmc_fifo / mpsc_fifo (C13, C17), fiber_mutex_unlock_internal / fiber_spinlock_unlock (C05, C03), fiber_create_no_sched, free: by contract']
ASSUMPTIONS = ['SC', 'the global clause "a fiber runs on at most one kernel thread at a time" is the composition of: nothing exposes a fiber before its context is saved (here) + every queue hands an entry to exactly one taker (C02, C13, C17, C20) + the scheduler skips SAVING fibers (C10); the composition is argued in DESIGN.md, not machine-checked',
               'termination of wake loops is not proved']
