/* C01 — composition lemma (abstract, loop-free, all states): "a fiber executes on at most one kernel thread, and is switched in only from a
 * saved context", from the per-function guarantees proved in manager.c and the exactly-once hand-out of the queues.
 * One observed fiber X.  st = the real fiber.state; ghost: saved (X's context is saved), r (kernel threads executing X), q (run-queue entries of
 * X), w (entries of X in a wait structure / a raisable marker), d (deferred action pending with X's successor on the thread X left),
 * pc (what X itself has prepared), dead (X's control block was destroyed).
 * Each action is one of the steps the function-level proofs allow:
 *   X (manager.c h_yield / h_wait_* / h_set_and_wait; fiber.c completion): the four preparations, then SWAP_AWAY — nothing is published in between
 *       except the direct push of an mpsc waiter, which has marked itself SAVING first;
 *   successor (h_maintenance): SAVING -> WAITING, schedule the READY predecessor, perform the deferred publication, destroy the DONE predecessor —
 *       each exactly once, all AFTER the swap;
 *   waker (h_wake_*; C03-C12 callers): pops ONE entry (C13/C15/C20: exactly one taker per entry), flips only WAITING -> READY, schedules once;
 *   scheduler / thief (C10, C02): pops ONE run-queue entry (exactly one taker), re-queues a fiber that is still SAVING, otherwise switches it in.
 * CLAIMS  r <= 1 always; a switch-in happens only with saved && r == 0 && !dead; publication / schedule / destroy by the successor only with saved.
 */
#include "verif_rt.h"
enum { RUNNING, READY, SAVING, WAITING, DONE };
enum { D_NONE, D_SCHED, D_PUBLISH, D_DONE };
enum { PC_USER, PC_YIELD, PC_IMM, PC_DEF, PC_EXIT };
typedef struct { unsigned st, saved, r, q, w, d, pc, dead; } st_t;
static int inv(st_t s) {
  if (!(s.st <= DONE && s.saved <= 1 && s.r <= 1 && s.q <= 1 && s.w <= 1 && s.d <= D_DONE && s.pc <= PC_EXIT && s.dead <= 1)) return 0;
  if ((s.r == 1) != (s.saved == 0)) return 0;
  if (s.pc != PC_USER && s.r != 1) return 0;
  if (s.d != D_NONE && s.r != 0) return 0;
  if (s.dead) return s.st == DONE && s.r == 0 && s.q == 0 && s.w == 0 && s.d == D_NONE;
  switch (s.st) {
    case RUNNING: return s.r == 1 && s.q == 0 && s.w == 0 && s.d == D_NONE && s.pc == PC_USER;
    case READY:   return ((s.r == 1 && s.pc == PC_YIELD) + (s.r == 0 && s.d == D_SCHED) + (s.r == 0 && s.d == D_NONE && s.q == 1)) == 1 && s.w == 0 &&
                         (s.q == 0 || (s.r == 0 && s.d == D_NONE)) && (s.d == D_NONE || s.d == D_SCHED);
    case SAVING:  return s.q + s.w == 1 && s.d == D_NONE && ((s.r == 1 && s.pc == PC_IMM) || (s.r == 0 && s.pc == PC_USER));
    case WAITING: return ((s.r == 1 && s.pc == PC_DEF && s.q + s.w == 0 && s.d == D_NONE) || (s.r == 0 && s.d == D_PUBLISH && s.q + s.w == 0) || (s.r == 0 && s.d == D_NONE && s.q + s.w == 1));
    case DONE:    return ((s.r == 1 && s.pc == PC_EXIT && s.d == D_NONE) || (s.r == 0 && s.d == D_DONE)) && s.q == 0 && s.w == 0;
  }
  return 0;
}
static int claim_ok;   /* set to 0 by an action that would violate a claim */
static int act(int a, st_t* s) {
  switch (a) {
    case 0: if (!(s->st == RUNNING && s->pc == PC_USER)) return 0; s->st = READY; s->pc = PC_YIELD; return 1;                    /* yield: switch_to marks READY */
    case 1: if (!(s->st == RUNNING && s->pc == PC_USER)) return 0; s->st = SAVING; s->w = 1; s->pc = PC_IMM; return 1;           /* direct-push waiter: SAVING, then poppable */
    case 2: if (!(s->st == RUNNING && s->pc == PC_USER)) return 0; s->st = WAITING; s->pc = PC_DEF; return 1;                    /* deferred park: publication only recorded */
    case 3: if (!(s->st == RUNNING && s->pc == PC_USER)) return 0; s->st = DONE; s->pc = PC_EXIT; return 1;                      /* completion: done_fiber recorded */
    case 4: if (!(s->r == 1 && s->pc != PC_USER)) return 0;                                                                      /* SWAP_AWAY */
            s->d = s->pc == PC_YIELD ? D_SCHED : s->pc == PC_DEF ? D_PUBLISH : s->pc == PC_EXIT ? D_DONE : D_NONE; s->saved = 1; s->r = 0; s->pc = PC_USER; return 1;
    case 5: if (!(s->st == SAVING && s->r == 0)) return 0; if (!s->saved) claim_ok = 0; s->st = WAITING; return 1;               /* successor: SAVING -> WAITING */
    case 6: if (s->d != D_SCHED) return 0; if (!s->saved) claim_ok = 0; s->q++; s->d = D_NONE; return 1;                         /* successor: schedule the READY predecessor */
    case 7: if (s->d != D_PUBLISH) return 0; if (!s->saved) claim_ok = 0; s->w++; s->d = D_NONE; return 1;                       /* successor: deferred publication */
    case 8: if (s->d != D_DONE) return 0; if (!s->saved || s->r) claim_ok = 0; s->dead = 1; s->d = D_NONE; return 1;             /* successor: destroy the DONE predecessor */
    case 9: if (!s->w) return 0; s->w--; if (s->st == WAITING) s->st = READY; s->q++; return 1;                                  /* waker: pop one entry, flip only WAITING -> READY, schedule */
    case 10: if (!s->q) return 0; if (s->st == SAVING) return 1;                                                                 /* scheduler / thief: a SAVING fiber is put back */
             s->q--; if (!(s->saved && s->r == 0 && !s->dead)) claim_ok = 0; s->r++; s->saved = 0; s->st = RUNNING; s->pc = PC_USER; return 1;   /* ... otherwise switched in */
  }
  return 0;
}
#define ANYST st_t s; s.st = verif_u32(); s.saved = verif_u32(); s.r = verif_u32(); s.q = verif_u32(); s.w = verif_u32(); s.d = verif_u32(); s.pc = verif_u32(); s.dead = verif_u32();
void lemma_L0_initial_states(void) {
  st_t s = {0}; s.st = verif_bool() ? RUNNING : READY; if (s.st == RUNNING) { s.r = 1; } else { s.saved = 1; s.q = 1; }   /* the thread fiber runs; a created fiber is READY, queued, with an initial frame (C19) */
  VASSERT(inv(s), "L: L0 a running thread fiber and a freshly created, queued fiber satisfy the invariant");
  VCANARY("L0 premises satisfiable");
}
void lemma_L1_every_step_preserves_the_invariant_and_the_claims(void) {
  ANYST VASSUME(inv(s)); claim_ok = 1;
  int a = (int)verif_pick(11); VASSUME(act(a, &s));
  VASSERT(claim_ok, "L: C01 a fiber is switched in only with its context saved, on no thread, not destroyed; the successor schedules / publishes / destroys only after the save");
  VASSERT(inv(s), "L: L1 every step the function-level guarantees allow preserves the invariant (in particular r <= 1: at most one kernel thread executes the fiber)");
  VCANARY("L1 premises satisfiable");
}
/* (Sanity of the lemma itself, checked by hand while writing it: with ONE guarantee dropped — the scheduler not putting a SAVING fiber back, the
   waker flipping SAVING -> READY, a deferred park publishing itself before the swap — L1 fails.  These are the reasons the function-level
   obligations of manager.c, C10 and the wakers exist.) */
void lemma_L4_invariant_gives_the_property(void) {
  ANYST VASSUME(inv(s));
  VASSERT(s.r <= 1 && (s.r == 0 || !s.dead) && (!s.dead || (s.q == 0 && s.w == 0)), "L: L4 the invariant implies: at most one thread executes the fiber; a destroyed fiber is neither running nor queued nor wakeable");
  VCANARY("L4 premises satisfiable");
}
