/* C11 — unbounded channels: fiber_unbounded_channel_* (many senders, mpsc_fifo) and fiber_unbounded_sp_channel_* (one sender, spsc_fifo)
 * (woven /repo/include/fiber_channel.h).  The queues are used by contract (C17 mpsc_fifo, C18 spsc_fifo: linearizable FIFO, push publishes
 * the node, trypop returns each node at most once, in order), the signal by contract (signal.c).
 * send     pushes exactly its node, once; THEN raises the ready signal once (publish first, raise second); returns raise's result
 * receive  returns exactly a node trypop returned; sleeps on the signal only after trypop found nothing, and pops again after every wake-up
 *          (the signal was cleared by wait before that re-check): a message is never left behind a sleeping receiver.
 * try_receive = trypop.
 */
#include "verif_rt.h"
#include "machine_specific.h"
#include "fiber.h"
#include "fiber_manager.h"
#define SIGNAL_RAISE_ASSIGNS manager->signal_spin_count   /* (fiber_signal_raise itself is proved in signal.c; unused here) */
#define SIGNAL_RAISE_INV 1
#include "fiber_signal.h"
#include "mpsc_fifo.h"
#include "spsc_fifo.h"
typedef struct { int pushed, raised, bad, raise_ret, pops, waits, last_pop_null; void* popped; void* q; void* msg; } ghost_t;
ghost_t G;
fiber_signal_t SIG;
static int stub_raise(fiber_signal_t* s) { if (s != &SIG || G.pushed != 1 || G.raised) G.bad = 1; G.raised++; G.raise_ret = verif_bool(); return G.raise_ret; }
static void stub_wait(fiber_signal_t* s) { if (s != &SIG || !G.last_pop_null) G.bad = 1; G.last_pop_null = 0; if (G.waits < 100) G.waits++; }
static void stub_mpsc_push(mpsc_fifo_t* f, mpsc_fifo_node_t* n) { if ((void*)f != G.q || (void*)n != G.msg || G.pushed || G.raised) G.bad = 1; G.pushed++; }
static void stub_spsc_push(spsc_fifo_t* f, spsc_node_t* n) { if ((void*)f != G.q || (void*)n != G.msg || G.pushed || G.raised) G.bad = 1; G.pushed++; }
static void* pop_any(void* f) { if (f != G.q || G.popped) G.bad = 1; void* r = verif_bool() ? (void*)verif_u64() : 0; if (r) { G.popped = r; } G.last_pop_null = (r == 0); if (G.pops < 100) G.pops++; return r; }
static mpsc_fifo_node_t* stub_mpsc_trypop(mpsc_fifo_t* f) { return (mpsc_fifo_node_t*)pop_any(f); }
static spsc_node_t* stub_spsc_trypop(spsc_fifo_t* f) { return (spsc_node_t*)pop_any(f); }
#define fiber_signal_raise(s) stub_raise(s)
#define fiber_signal_wait(s) stub_wait(s)
#define mpsc_fifo_push(f, n) stub_mpsc_push((f), (n))
#define mpsc_fifo_trypop(f) stub_mpsc_trypop(f)
#define spsc_fifo_push(f, n) stub_spsc_push((f), (n))
#define spsc_fifo_trypop(f) stub_spsc_trypop(f)
/* loop contracts named by loops.json (the functions of fiber_channel.h that this TU does not verify get a trivial one: they are unreachable here) */
#define BSEND_ASSIGNS channel->ready_signal
#define BSEND_INV 1
#define BRECV_ASSIGNS channel->ready_signal
#define BRECV_INV 1
#define URECV_ASSIGNS G
#define URECV_INV (G.bad == 0 && G.popped == 0 && G.pops <= 100 && G.waits <= 100 && G.pops >= 0 && G.waits >= 0 && G.q == (void*)&channel->queue && channel->ready_signal == __CPROVER_loop_entry(channel->ready_signal))
#define SPRECV_ASSIGNS G
#define SPRECV_INV (G.bad == 0 && G.popped == 0 && G.pops <= 100 && G.waits <= 100 && G.pops >= 0 && G.waits >= 0 && G.q == (void*)&channel->queue && channel->ready_signal == __CPROVER_loop_entry(channel->ready_signal))
#include "fiber_channel.h" /* woven */
static void spec_snap(void) {}
static void spec_step(int site) {}
static void spec_env(int site) {}
static void spec_read(int site, void* addr) {}
#include "verif_point.inc"
fiber_unbounded_channel_t UC; fiber_unbounded_sp_channel_t SC; mpsc_fifo_node_t MN; spsc_node_t SN;
static void init_any(int sp) { G.pushed = G.raised = G.bad = G.pops = G.waits = G.last_pop_null = 0; G.popped = 0;
  if (sp) { G.q = &SC.queue; G.msg = &SN; SC.ready_signal = verif_bool() ? &SIG : 0; } else { G.q = &UC.queue; G.msg = &MN; UC.ready_signal = verif_bool() ? &SIG : 0; } }
#define SEND_POST(sigp, r) VASSERT(!G.bad && G.pushed == 1 && ((sigp) ? (G.raised == 1 && (r) == G.raise_ret) : (G.raised == 0 && (r) == 0)), "H: C11 send pushes exactly its message once, then raises the ready signal once, and reports what raise reported")
#define RECV_POST(r) VASSERT(!G.bad && (r) != 0 && (r) == G.popped, "H: C11 receive returns exactly the node the queue handed out; it slept only after an empty pop and popped again after each wake-up")
void h_usend(void) { init_any(0); int r = fiber_unbounded_channel_send(&UC, &MN); SEND_POST(UC.ready_signal, r); VCANARY("usend can return"); }
void h_urecv(void) { init_any(0); void* r = fiber_unbounded_channel_receive(&UC); RECV_POST(r); VCANARY("urecv can return"); }
void h_utry(void) { init_any(0); void* r = fiber_unbounded_channel_try_receive(&UC); VASSERT(!G.bad && G.pops == 1 && r == G.popped && G.waits == 0, "H: C11 try_receive is one trypop, never blocks"); VCANARY("utry can return"); }
void h_spsend(void) { init_any(1); int r = fiber_unbounded_sp_channel_send(&SC, &SN); SEND_POST(SC.ready_signal, r); VCANARY("spsend can return"); }
void h_sprecv(void) { init_any(1); void* r = fiber_unbounded_sp_channel_receive(&SC); RECV_POST(r); VCANARY("sprecv can return"); }
void h_sptry(void) { init_any(1); void* r = fiber_unbounded_sp_channel_try_receive(&SC); VASSERT(!G.bad && G.pops == 1 && r == G.popped && G.waits == 0, "H: C11 try_receive is one trypop, never blocks"); VCANARY("sptry can return"); }
