/* C11 — the single-waiter signal: fiber_signal_wait / fiber_signal_raise (woven /repo/include/fiber_signal.h).
 * State   s->waiter in { NO_WAITER, RAISED, the one fiber that waits }.
 * Protocol (rely/guarantee; one waiter, any number of raisers)
 *   raiser   one atomic exchange that puts RAISED in and learns the old value.  old == a fiber F: I took F — I alone wake it: I may reset the
 *            signal (only in the window between taking F and handing F to the scheduler: afterwards F may already have registered again and a
 *            late store would erase that registration), I wait for F's READY_TO_WAKE marker, make F READY and schedule it exactly once; return 1.
 *            old == NO_WAITER: the signal now holds RAISED (the raise is remembered for the next wait); return 0, nobody scheduled.
 *            old == RAISED: nothing changes; return 0.
 *   waiter   clears its marker, then ONE CAS NO_WAITER -> me.  Success: WAITING, marker location handed to the manager, exactly one park;
 *            after the wake-up the marker is cleared.  Failure is possible only because the signal was RAISED: no park.  Either way the last
 *            step clears the signal (the caller re-checks its queue AFTER that: fiber_channel.h).
 *   A wait returns only after a raise: one it saw as RAISED, or one that took it after it registered.  No raise is lost.
 */
#include "verif_rt.h"
#include "machine_specific.h"
#include "fiber.h"
#include "fiber_manager.h"
typedef struct {
  int waiter_role;
  /* waiter */ int registered, saw_raised, yields, yield_bad, cleared_after, cas_done;
  /* raiser */ int accesses, took, marked, reset, scheduled, sched_bad, saw_ready; fiber_t* old;
  fiber_t* l_waiter;
} ghost_t;
ghost_t G;
fiber_t ME, F1;
fiber_manager_t VM0;
struct fiber_signal; extern struct fiber_signal S;
#define SW(s) (*(fiber_t**)&(s)->waiter)
/* the loop contract of the raiser's spin on the sleeper's marker (named by loops.json; the other C11 TUs use the signal by contract) */
#define SIGNAL_RAISE_ASSIGNS G, S, F1.scratch, VM0.signal_spin_count
#define SIGNAL_RAISE_INV (G.waiter_role == 0 && G.took == 1 && G.scheduled == 0 && G.sched_bad == 0 && G.accesses >= 1 && G.accesses <= 4 && old == &F1 && G.old == &F1 && manager == &VM0 && s == &S && (SW(s) == 0 || SW(s) == FIBER_SIGNAL_RAISED))
#include "fiber_signal.h" /* woven */
/* (declared before the header: the loop contract names it) */
#define W (*(fiber_t**)&S.waiter)
#define RAISEDF FIBER_SIGNAL_RAISED
static fiber_t* canon(fiber_t* p) { return p == &ME ? &ME : p == &F1 ? &F1 : p == RAISEDF ? RAISEDF : 0; }
static void spec_snap(void) { W = canon(W); G.l_waiter = W; }
static void spec_step(int site) {
  if (W == G.l_waiter) return;
  if (G.waiter_role) {
    if (W == &ME) { VASSERT(G.l_waiter == 0 && !G.registered && !G.saw_raised && ME.scratch == 0, "G: C11 wait registers itself only by one CAS from NO_WAITER, with its wake marker already cleared"); G.registered = 1; }
    else { VASSERT(W == 0 && (G.saw_raised || G.yields == 1), "G: C11 wait clears the signal only after a raise reached it (saw RAISED, or was woken)"); G.cleared_after = 1; }
  } else {
    if (W == RAISEDF) { VASSERT(G.accesses == 1 && G.l_waiter == G.old, "G: C11 raise writes RAISED only by its one exchange"); if (G.old == 0) G.marked = 1; }
    else { VASSERT(W == 0 && G.took && !G.scheduled && !G.reset, "G: C11 a raiser resets the signal only between taking the waiter and handing it to the scheduler (a later store would erase a new registration)"); G.reset = 1; }
  }
}
#include "C11/signal_env.h"
static int enc(fiber_t* w) { return w == 0 ? W_NO : w == RAISEDF ? W_RAISED : W_F; }
static void spec_env(int site) {
  /* the other role(s) make any number of steps: the waiter word becomes any value the role's environment predicate allows (signal_env.h;
     lemmas.c shows these predicates contain every step the other role's guarantee permits) */
  unsigned k = verif_pick(3); fiber_t* w2 = k == 0 ? 0 : k == 1 ? RAISEDF : (G.waiter_role ? &ME : &F1);
  if (G.waiter_role) {
    VASSUME(wait_env_allows(G.registered && !G.yields, enc(W), enc(w2)));
    VASSUME(w2 != &ME || W == &ME);          /* nobody but me registers me */
    W = w2;
  } else {
    VASSUME(raise_env_allows(G.took && !G.scheduled, enc(W), enc(w2)));
    W = w2;
    if (G.took && !G.scheduled && verif_bool()) F1.scratch = FIBER_SIGNAL_READY_TO_WAKE;   /* the marker appears once F1 has switched out */
  }
}
static void spec_read(int site, void* addr) {
  if (G.waiter_role) {
    if (addr == (void*)&S.waiter && !G.cas_done) { G.cas_done = 1; if (W == RAISEDF) G.saw_raised = 1; }
  } else {
    if (addr == (void*)&S.waiter) { G.accesses++; if (G.accesses == 1) { G.old = W; G.took = (W == &F1); } }
    if (G.took && addr == (void*)&F1.scratch && F1.scratch == FIBER_SIGNAL_READY_TO_WAKE) G.saw_ready = 1;
  }
}
#include "verif_point.inc"
fiber_manager_t* fiber_manager_get(void) { return &VM0; }
void fiber_scheduler_schedule(fiber_scheduler_t* s, fiber_t* f) {
  verif_sync(-3);
  if (G.waiter_role || !G.took || f != &F1 || G.scheduled || F1.state != FIBER_STATE_READY || !G.saw_ready) G.sched_bad = 1;
  G.scheduled++;
}
void fiber_manager_yield(fiber_manager_t* m) {
  verif_sync(-4);
  if (!G.waiter_role || m != &VM0 || !G.registered || ME.state != FIBER_STATE_WAITING || VM0.set_wait_location != (void**)&ME.scratch ||
      VM0.set_wait_value != FIBER_SIGNAL_READY_TO_WAKE || G.yields || ME.scratch != 0) G.yield_bad = 1;
  G.yields++;
  /* parked; the manager set the marker after the switch; a raiser took me (exchange: RAISED), possibly reset the signal, woke me; others re-raised */
  ME.scratch = FIBER_SIGNAL_READY_TO_WAKE; ME.state = FIBER_STATE_RUNNING; W = verif_bool() ? RAISEDF : 0;
  VM0.set_wait_location = 0; VM0.set_wait_value = 0;   /* maintenance consumed the deferred write */
  spec_snap();
}
static void init_any(int waiter) {
  G.waiter_role = waiter; G.registered = G.saw_raised = G.yields = G.yield_bad = G.cleared_after = G.cas_done = 0;
  G.accesses = G.took = G.marked = G.reset = G.scheduled = G.sched_bad = G.saw_ready = 0; G.old = 0;
  unsigned k = verif_pick(3); W = k == 0 ? 0 : k == 1 ? RAISEDF : (waiter ? 0 : &F1);
  VM0.current_fiber = &ME; VM0.scheduler = (fiber_scheduler_t*)&VM0; VM0.set_wait_location = 0; VM0.set_wait_value = 0;
  ME.state = FIBER_STATE_RUNNING; ME.scratch = (void*)verif_u64();
  F1.state = FIBER_STATE_WAITING; F1.scratch = verif_bool() ? FIBER_SIGNAL_READY_TO_WAKE : 0;
  spec_snap();
}
void h_wait(void) {
  init_any(1); fiber_signal_wait(&S); verif_sync(-1);
  VASSERT(!G.yield_bad && ((G.saw_raised && !G.registered && G.yields == 0) || (G.registered && G.yields == 1 && ME.scratch == 0)),
          "H: C11 wait returns only after a raise: it saw RAISED and did not sleep, or it registered, parked exactly once (WAITING, cleared marker handed to the manager) and was woken; marker cleared afterwards");
  VASSERT(W != &ME, "H: C11 wait does not leave itself registered");
  VASSERT(VM0.set_wait_location == 0, "H: C11 wait leaves no deferred marker write armed when it returns (armed without a switch it would fire at an unrelated later switch and overwrite scratch, the multi channel's waiter link)");
  VCANARY("wait can return");
}
void h_raise(void) {
  init_any(0); int r = fiber_signal_raise(&S); verif_sync(-1);
  VASSERT(G.accesses >= 1 && !G.sched_bad, "H: C11 raise performs its exchange; whoever it schedules is the waiter it took, READY, after its marker, once");
  if (G.old == &F1) VASSERT(r == 1 && G.scheduled == 1, "H: C11 a raise that finds a waiter wakes exactly that waiter and returns 1");
  else VASSERT(r == 0 && G.scheduled == 0 && !G.reset && (G.old != 0 || G.marked), "H: C11 a raise that finds nobody leaves the signal RAISED (remembered for the next wait), schedules nobody and returns 0");
  VCANARY("raise can return");
}
fiber_signal_t S;
/* init: from ANY memory content the signal starts not raised with no waiter */
void h_init(void) {
  static fiber_signal_t X; memset(&X, (int)verif_u64(), sizeof(X));
  fiber_signal_init(&X);
  VASSERT(X.waiter == (fiber_t*)FIBER_SIGNAL_NO_WAITER, "H: C11 signal init: no waiter, not raised, whatever the memory held");
  VCANARY("signal init can return");
}
