WEAVE = [dict(file='include/fiber_signal.h', parse='test/test_channel.c', fns=['fiber_signal_wait', 'fiber_signal_raise'], loops='loops.json'),
         dict(file='include/fiber_channel.h', parse='test/test_channel.c', loops='loops.json',
              fns=['fiber_bounded_channel_send', 'fiber_bounded_channel_receive', 'fiber_bounded_channel_try_receive',
                   'fiber_unbounded_channel_send', 'fiber_unbounded_channel_receive', 'fiber_unbounded_channel_try_receive',
                   'fiber_unbounded_sp_channel_send', 'fiber_unbounded_sp_channel_receive', 'fiber_unbounded_sp_channel_try_receive']),
         dict(file='include/fiber_multi_channel.h', parse='test/test_bounded_mpmc_channel.c', loops='loops.json',
              fns=['fiber_multi_channel_send', 'fiber_multi_channel_receive', 'fiber_multi_channel_internal_wait', 'fiber_multi_channel_internal_wake'])]
LF = ['-DVERIF_LOOP_FLAG']
RING = 'ring of symbolic power-of-two size 2..8 in a fixed backing store (PMAX=3); positions, counters and the observed position are unbounded'
GROUPS = [
    dict(name='signal_wait', tu='signal.c', harness='h_wait', mode='H', defs=LF, functions=['fiber_signal_wait']),
    dict(name='signal_raise', tu='signal.c', harness='h_raise', mode='H', loop_contracts=True, defs=LF, functions=['fiber_signal_raise']),
    dict(name='bounded_send', tu='bounded.c', harness='h_send', mode='H', loop_contracts=True, defs=LF, functions=['fiber_bounded_channel_send'], bounded=True, bound=RING),
    dict(name='bounded_receive', tu='bounded.c', harness='h_receive', mode='H', loop_contracts=True, defs=LF, functions=['fiber_bounded_channel_receive'], bounded=True, bound=RING),
    dict(name='bounded_try_receive', tu='bounded.c', harness='h_try_receive', mode='H', defs=LF, functions=['fiber_bounded_channel_try_receive'], bounded=True, bound=RING),
    dict(name='signal_init', tu='signal.c', harness='h_init', mode='H', defs=LF, functions=['fiber_signal_init'], unwind=2, exact_unwind=True),
    dict(name='bounded_create', tu='bounded.c', harness='h_create', mode='H', defs=LF, functions=['fiber_bounded_channel_create'], unwind=2, exact_unwind=True),
    dict(name='multi_create', tu='multi.c', harness='h_create', mode='H', defs=LF, functions=['fiber_multi_channel_create'], unwind=2, exact_unwind=True),
    dict(name='unbounded_send', tu='unbounded.c', harness='h_usend', mode='H', defs=LF, functions=['fiber_unbounded_channel_send']),
    dict(name='unbounded_receive', tu='unbounded.c', harness='h_urecv', mode='H', loop_contracts=True, defs=LF, functions=['fiber_unbounded_channel_receive']),
    dict(name='unbounded_try_receive', tu='unbounded.c', harness='h_utry', mode='H', defs=LF, functions=['fiber_unbounded_channel_try_receive']),
    dict(name='sp_send', tu='unbounded.c', harness='h_spsend', mode='H', defs=LF, functions=['fiber_unbounded_sp_channel_send']),
    dict(name='sp_receive', tu='unbounded.c', harness='h_sprecv', mode='H', loop_contracts=True, defs=LF, functions=['fiber_unbounded_sp_channel_receive']),
    dict(name='sp_try_receive', tu='unbounded.c', harness='h_sptry', mode='H', defs=LF, functions=['fiber_unbounded_sp_channel_try_receive']),
    dict(name='multi_send', tu='multi.c', harness='h_send', mode='H', loop_contracts=True, defs=LF, functions=['fiber_multi_channel_send', 'fiber_multi_channel_internal_wait', 'fiber_multi_channel_internal_wake'], bounded=True, bound=RING),
    dict(name='lemmas', tu='lemmas.c', kind='lemmas', harness='', no_native='pure lemma'),
    dict(name='multi_receive', tu='multi.c', harness='h_receive', mode='H', loop_contracts=True, defs=LF, functions=['fiber_multi_channel_receive', 'fiber_multi_channel_internal_wait', 'fiber_multi_channel_internal_wake'], bounded=True, bound=RING),
]
TRUSTED = ['mpsc_fifo_push/trypop, spsc_fifo_push/trypop: by contract here (linearizable FIFO; C17, C18)', 'fiber_mutex_lock/unlock: by contract (mutual exclusion; C05)',
           'fiber_manager_yield / fiber_manager_schedule: by contract (park with deferred marker write / deferred unlock; a scheduled fiber resumes; C01)', 'fiber_yield: by contract (C10)']
ASSUMPTIONS = ['SC; weak CAS modelled strong (A3)', 'exactly one receiver on bounded/unbounded/sp channels and one waiter per signal, one sender on sp channels (the API contract)',
               'termination of spin/retry loops is not proved', '64-bit position counters do not wrap (A6)',
               'end-to-end "every message received exactly once, no stranded peer" is the composition of these per-operation contracts with the queue contracts (C16-C18) and the park/wake contract (C01); the composition argument is in DESIGN.md and is not machine-checked']
# obligation groups of other properties' specifications that this property also rests on (its anchors name those files); see DESIGN.md 11.2
IMPORTS = [dict(prop='C01', groups=['maintenance', 'maintenance_migrating_unlock']), dict(prop='C15', groups=['mpsc_push', 'mpsc_trypop', 'spsc_push', 'spsc_trypop'])]
