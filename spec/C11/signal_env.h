/* C11 — the two environments of the signal protocol, shared by the function-level proofs (signal.c: spec_env draws any next value of the
   waiter word these predicates allow) and by the compatibility lemmas (lemmas.c). */
#ifndef C11_SIGNAL_ENV_H
#define C11_SIGNAL_ENV_H
#define W_NO 0
#define W_RAISED 1
#define W_F 2
/* the waiter's environment (signal.c, waiter role): phase 0 = not registered (or already woken), 1 = registered and not yet parked/woken */
static int wait_env_allows(int phase, int w0, int w1) {
  if (w0 == w1) return 1;
  if (phase == 0) return w0 == W_NO && w1 == W_RAISED;
  return w1 == W_RAISED || w1 == W_NO;                        /* a raiser took me: RAISED, possibly already reset to NO */
}
/* the raiser's environment (signal.c, raiser role): took && !scheduled = the sleeper is mine to wake */
static int raise_env_allows(int took_unscheduled, int w0, int w1) {
  if (w0 == w1) return 1;
  if (took_unscheduled) return w0 == W_NO && w1 == W_RAISED;  /* only other raisers can act: re-raise after my reset */
  return 1;                                                   /* otherwise: anything among NO / RAISED / F */
}
#endif
