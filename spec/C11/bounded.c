/* C11 — bounded channel (many senders, ONE receiver): fiber_bounded_channel_send / receive / try_receive (woven /repo/include/fiber_channel.h);
 * fiber_signal_raise / fiber_signal_wait by contract (signal.c), fiber_yield by contract (C10).
 * State   high = positions claimed by senders, low = positions consumed by the receiver, slot(q) = buffer[q mod size].
 * INV     low <= high, high - low <= size;  a slot is NULL unless it holds the message of a claimed, written, unconsumed position.
 * Protocol (P1)
 *   sender    claims position p by ONE CAS high: p -> p+1, made only when that keeps high - low <= size (capacity is never exceeded);
 *             then writes its message into slot(p), which is empty (never overwrites an unreceived message), exactly once, nothing else;
 *             then raises the ready signal (publish first, raise second) and returns what raise returned.
 *   receiver  owns low.  Takes the message of position low only when slot(low) holds one; clears the slot, then advances low by one (the
 *             position is released only after the slot is empty); returns exactly that message (per-sender order = position order);
 *             sleeps on the signal only after a failed check, and checks again after every wake-up.
 * The ring has a symbolic power-of-two size 2..2^PMAX in a fixed backing store (bounded, labelled); A is an arbitrary observed position.
 */
#include "verif_rt.h"
#include "machine_specific.h"
#include "fiber.h"
#include "fiber_manager.h"
#define SIGNAL_RAISE_ASSIGNS manager->signal_spin_count   /* (fiber_signal_raise itself is proved in signal.c; unused here) */
#define SIGNAL_RAISE_INV 1
#include "fiber_signal.h"
#ifndef PMAX
#define PMAX 3
#endif
typedef struct {
  int sender; uint64_t A;
  int claimed, wrote, raised, yields, bad; uint64_t p; int raise_ret; void* msg;
  int cleared, advanced, waits, checked; void* taken;
  uint64_t lH, lL; void* lcA; void* lcM;
} ghost_t;
ghost_t G;
static int stub_raise(fiber_signal_t* s);
static void stub_wait(fiber_signal_t* s);
static int stub_yield(void);
#define fiber_signal_raise(s) stub_raise(s)
#define fiber_signal_wait(s) stub_wait(s)
#define fiber_yield() stub_yield()
#define CHH(c) (*(uint64_t*)&(c)->high)
#define CHL(c) (*(uint64_t*)&(c)->low)
#define SIZE_OK(c) ((c)->size >= 2 && (c)->size <= (1u << PMAX) && ((c)->size & ((c)->size - 1)) == 0 && (c)->power_of_2_mod == (c)->size - 1)
/* loop contracts named by loops.json (the functions of fiber_channel.h that this TU does not verify get a trivial one: they are unreachable here) */
#define BSEND_ASSIGNS G, __CPROVER_object_whole(channel)
#define BSEND_INV (G.sender == 1 && G.cleared == 0 && G.advanced == 0 && G.yields >= 0 && G.claimed == 0 && G.wrote == 0 && G.raised == 0 && G.bad == 0 && G.yields <= 100 && SIZE_OK(channel) && CHL(channel) <= CHH(channel) && CHH(channel) - CHL(channel) <= channel->size && CHH(channel) < (1ull << 62) && message == G.msg && channel->ready_signal == __CPROVER_loop_entry(channel->ready_signal))
#define BRECV_ASSIGNS G, __CPROVER_object_whole(channel)
#define BRECV_INV (G.sender == 0 && G.claimed == 0 && G.yields >= 0 && G.waits >= 0 && G.cleared == 0 && G.advanced == 0 && G.bad == 0 && G.waits <= 100 && G.yields <= 100 && SIZE_OK(channel) && CHL(channel) <= CHH(channel) && CHH(channel) - CHL(channel) <= channel->size && CHH(channel) < (1ull << 62) && channel->ready_signal == __CPROVER_loop_entry(channel->ready_signal))
#define URECV_ASSIGNS channel->ready_signal
#define URECV_INV 1
#define SPRECV_ASSIGNS channel->ready_signal
#define SPRECV_INV 1
/* create's allocator: records the request; hands back the static store declared below (create touches only the header) */
static size_t create_req; static int create_calls; static void* create_obj;
static void* stub_calloc(size_t n, size_t sz) { create_calls++; create_req = n * sz; return verif_bool() ? 0 : create_obj; }
static int create_frees;
static void stub_free(void* q) { if (q == create_obj) create_frees++; }
#define calloc stub_calloc
#define free stub_free
#include "fiber_channel.h" /* woven */
#undef calloc
#undef free
#undef fiber_signal_raise
#undef fiber_signal_wait
#undef fiber_yield
static struct { fiber_bounded_channel_t c; void* cells[1 << PMAX]; } CHS;
#define CH (&CHS.c)
fiber_signal_t SIG;
#define CUR_H CHH(CH)
#define CUR_L CHL(CH)
#define MASK ((uint64_t)CH->power_of_2_mod)
#define SLOT(i) (CH->buffer[(i) & MASK])
#define MYPOS (G.sender ? G.p : CUR_L)
#define HAVE_MY (G.sender ? G.claimed : 1)
static void spec_snap(void) { G.lH = CUR_H; G.lL = CUR_L; G.lcA = SLOT(G.A); G.lcM = HAVE_MY ? SLOT(MYPOS) : 0; }
static void my_slot_write(void* before, void* after, uint64_t pos) {
  if (G.sender) {
    VASSERT(G.claimed && !G.wrote && ((pos ^ G.p) & MASK) == 0, "G: C11 a sender writes only the slot of the position it claimed, once, after claiming it");
    VASSERT(before == 0, "G: C11 a send never overwrites an unreceived message (the slot it fills is empty)");
    VASSERT(after == G.msg, "G: C11 the slot receives exactly the message being sent");
    G.wrote = 1;
  } else {
    VASSERT(!G.cleared && ((pos ^ G.lL) & MASK) == 0 && before != 0 && after == 0, "G: C11 the receiver only clears the slot of position low, and only when it holds a message");
    G.cleared = 1; G.taken = before;
  }
}
static void spec_step(int site) {
  uint64_t H = CUR_H, L = CUR_L, size = CH->size;
  if (H != G.lH) {
    VASSERT(G.sender && !G.claimed && H == G.lH + 1, "G: C11 high moves only by a sender's claim, by one, once per send");
    VASSERT(H - L <= size, "G: C11 a claim keeps high - low <= size (the channel never holds more than its capacity)");
    G.claimed = 1; G.p = G.lH;
  }
  if (L != G.lL) {
    VASSERT(!G.sender && !G.advanced && L == G.lL + 1, "G: C11 low moves only by the receiver, by one, once per receive");
    VASSERT(G.cleared, "G: C11 the receiver releases a position only after emptying its slot");
    G.advanced = 1;
  }
  if (SLOT(G.A) != G.lcA) my_slot_write(G.lcA, SLOT(G.A), G.A);
  else if (G.sender ? (G.claimed && !(H != G.lH) && SLOT(G.p) != G.lcM) : (SLOT(G.lL) != G.lcM && L == G.lL)) my_slot_write(G.lcM, G.sender ? SLOT(G.p) : SLOT(G.lL), G.sender ? G.p : G.lL);
}
static void spec_env(int site) {
  uint64_t size = CH->size;
  uint64_t H2 = verif_u64(), L2 = verif_u64();
  VASSUME(H2 >= CUR_H && L2 >= CUR_L && L2 <= H2 && H2 - L2 <= size && H2 < (1ull << 62));
  if (G.sender) {
    if (G.claimed && !G.wrote) VASSUME(L2 <= G.p);          /* my position cannot be consumed before I write it */
    CUR_H = H2; CUR_L = L2;
    void* a = (void*)verif_u64(); SLOT(G.A) = a;              /* other senders fill their slots, the receiver empties consumed ones */
    if (G.claimed && !G.wrote) { VASSUME(((G.A ^ G.p) & MASK) != 0 || a == 0); SLOT(G.p) = 0; }   /* INV: the slot of a claimed, unwritten position is empty */
  } else {
    VASSUME(L2 == CUR_L);                                     /* low is mine */
    CUR_H = H2;
    void* a = (void*)verif_u64(); void* m = (void*)verif_u64();
    void* cur = SLOT(CUR_L);
    /* the slot of position low: a message, once written, stays until I clear it; it is written only for a claimed position */
    if (cur != 0) m = cur; else if (!(H2 > CUR_L)) m = 0;
    if (G.cleared && !G.advanced) m = 0;                      /* position low + size cannot be claimed before I release low */
    SLOT(G.A) = a; SLOT(CUR_L) = m;
    if (((G.A ^ CUR_L) & MASK) == 0) VASSUME(a == m);
  }
}
static void spec_read(int site, void* addr) {
  if (__CPROVER_same_object(addr, &CHS) && (char*)addr >= (char*)&CH->buffer[0] && (char*)addr < (char*)&CH->buffer[CH->size]) G.checked = 1;
}
#include "verif_point.inc"
static int stub_raise(fiber_signal_t* s) {
  verif_sync(-2);
  if (!G.sender || s != &SIG || !G.wrote || G.raised) G.bad = 1;
  G.raised++; G.raise_ret = verif_bool(); return G.raise_ret;
}
static void stub_wait(fiber_signal_t* s) {
  verif_sync(-3);
  if (G.sender || s != &SIG || !G.checked || G.cleared || G.advanced) G.bad = 1;
  G.checked = 0; if (G.waits < 100) G.waits++;
}
static int stub_yield(void) {
  verif_sync(-4);
  if (G.claimed || G.cleared || G.advanced) G.bad = 1;   /* yields only between attempts */
  if (!G.sender) { if (!G.checked || CH->ready_signal) G.bad = 1; G.checked = 0; }
  if (G.yields < 100) G.yields++;
  return 1;
}
static void init_any(int sender) {
  G.sender = sender; G.A = verif_u64(); G.claimed = G.wrote = G.raised = G.yields = G.bad = 0; G.cleared = G.advanced = G.waits = G.checked = 0; G.taken = 0;
  G.msg = (void*)verif_u64(); VASSUME(G.msg != 0);
  unsigned pw = verif_pick(PMAX) + 1; CH->size = 1u << pw; CH->power_of_2_mod = CH->size - 1; CH->ready_signal = verif_bool() ? &SIG : 0;
  uint64_t H = verif_u64(), L = verif_u64(); VASSUME(L <= H && H - L <= CH->size && H < (1ull << 61)); CUR_H = H; CUR_L = L;
  SLOT(G.A) = (void*)verif_u64();
  if (!sender) { void* m = (void*)verif_u64(); if (!(H > L)) m = 0; SLOT(L) = m; if (((G.A ^ L) & MASK) == 0) SLOT(G.A) = m; }
  spec_snap();
}
void h_send(void) {
  init_any(1); int r = fiber_bounded_channel_send(CH, G.msg); verif_sync(-1);
  VASSERT(!G.bad && G.claimed && G.wrote, "H: C11 send returns only after claiming one position and storing its message there");
  VASSERT(CH->ready_signal ? (G.raised == 1 && r == G.raise_ret) : (G.raised == 0 && r == 0), "H: C11 send raises the ready signal exactly once, after publishing the message, and reports what raise reported");
  VCANARY("send can return");
}
void h_receive(void) {
  init_any(0); void* r = fiber_bounded_channel_receive(CH); verif_sync(-1);
  VASSERT(!G.bad && G.cleared && G.advanced && r != 0 && r == G.taken, "H: C11 receive returns exactly the message of position low, having emptied its slot and released the position once; it sleeps only after a failed check");
  VCANARY("receive can return");
}
void h_try_receive(void) {
  init_any(0); void* out = 0; int r = fiber_bounded_channel_try_receive(CH, &out); verif_sync(-1);
  if (r) VASSERT(r == 1 && !G.bad && G.cleared && G.advanced && out != 0 && out == G.taken, "H: C11 try_receive success = the message of position low, slot emptied, position released");
  else VASSERT(!G.bad && !G.cleared && !G.advanced && G.waits == 0 && G.yields == 0, "H: C11 try_receive failure changes nothing and does not block");
  VCANARY("try_receive can return");
}
/* create: for every capacity the interface admits (2^1 .. 2^31) the allocation really holds that many slots (the send/receive proofs take
 * "buffer has `size` cells" as given), the indices start equal, the ready signal is the caller's */
void h_create(void) {
  uint32_t k = (uint32_t)verif_u64(); VASSUME(k >= 1 && k < 32);
  create_calls = 0; create_req = 0; create_frees = 0; create_obj = &CHS;
  fiber_bounded_channel_t* r = fiber_bounded_channel_create(k, &SIG);
  VASSERT(create_calls == 1 && create_req >= sizeof(fiber_bounded_channel_t) + ((size_t)1 << k) * sizeof(void*),
          "H: C11 create: the allocation holds the header and all 2^k slots, for every k the interface admits (1..31) - otherwise a send overwrites foreign memory");
  if (r) VASSERT(r == CH && r->size == ((uint32_t)1 << k) && r->power_of_2_mod == r->size - 1 && CUR_H == CUR_L && r->ready_signal == &SIG &&
                 r->waiters.head != 0 && r->waiters.head == r->waiters.tail,
                 "H: C11 create: capacity 2^k, mask 2^k - 1, empty, the caller's ready signal");
  else VASSERT(create_frees <= 1, "H: C11 a failed create frees its allocation at most once");
  VCANARY("create can return");
}
