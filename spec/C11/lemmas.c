/* C11 — signal protocol: compatibility of the two roles' rely and guarantee (loop-free, all states).
 * The function-level proofs in signal.c are thread-modular: each role is verified against an environment that is written by hand.  These lemmas
 * check that the hand-written environments are not too small: every step the OTHER role is allowed to make by ITS step monitor (its guarantee)
 * is a step MY environment can make (my rely).  State: the waiter word w in { NO, RAISED, F } (F = the one waiting fiber) and, per role, the
 * ghost flags the environments look at.
 *   raiser steps (guarantee of fiber_signal_raise, spec_step/spec_read in signal.c, raiser role):
 *     R1  exchange:        w := RAISED            (any w; took := (old w == F))
 *     R2  reset:           RAISED -> NO           only if took && !scheduled
 *     R3  schedule F:      only if took, after the marker; afterwards nothing more is written
 *   waiter steps (guarantee of fiber_signal_wait, waiter role):
 *     W1  register:        NO -> F                (once, marker cleared)
 *     W2  clear:           {RAISED, NO, F->?} -> NO   only after a raise reached it (saw RAISED, or was woken)
 * L2a  every raiser step is allowed by the waiter's environment (spec_env, waiter role) in the phase the waiter is in
 * L2b  every waiter step is allowed by the raiser's environment (spec_env, raiser role) in the phase the raiser is in
 * L4   no lost raise: if a raise happened after the waiter's last clear, then w == RAISED or the waiter has been / is being woken
 */
#include "verif_rt.h"
#include "C11/signal_env.h"
void lemma_L2a_raiser_steps_within_waiter_rely(void) {
  int w = (int)verif_pick(3), phase = (int)verif_pick(2);
  /* the word is F only while the waiter is registered and not yet taken (phase 1); a raiser that takes F does so by R1 */
  VASSUME((w == W_F) <= (phase == 1));
  int step = (int)verif_pick(2), took = verif_bool(), scheduled = verif_bool();
  int w1 = w;
  if (step == 0) { w1 = W_RAISED; }                                            /* R1 exchange by some raiser */
  else { VASSUME(w == W_RAISED && took && !scheduled); w1 = W_NO;              /* R2 reset by the raiser that took F: F is registered, unwoken */
         VASSUME(phase == 1); }
  VASSERT(wait_env_allows(phase, w, w1), "L: L2a every write a raiser may make to the signal (exchange RAISED; reset only between taking the waiter and scheduling it) is one the waiter's environment can make");
  VCANARY("L2a premises satisfiable");
}
void lemma_L2b_waiter_steps_within_raiser_rely(void) {
  int w = (int)verif_pick(3), took_unscheduled = verif_bool();
  /* while a raiser owns the wake of F (took, not yet scheduled) F is asleep or going to sleep: it makes no step at all */
  int step = (int)verif_pick(2), w1 = w;
  if (step == 0) { VASSUME(w == W_NO && !took_unscheduled); w1 = W_F; }        /* W1 register */
  else { VASSUME(!took_unscheduled); w1 = W_NO; }                              /* W2 clear (only when awake: not while a raiser still owns its wake) */
  VASSERT(raise_env_allows(took_unscheduled, w, w1), "L: L2b every write the waiter may make (register from NO; clear after a raise reached it) is one the raiser's environment can make, and it makes none while a raiser owns its wake-up");
  VCANARY("L2b premises satisfiable");
}
/* L4: pending = "a raise has happened since the waiter last cleared the signal and the waiter has not been told yet".
   INV: pending ==> (w == RAISED || waking), where waking = a raiser has taken F and will schedule it (or has). */
typedef struct { int w, pending, waking, registered; } st_t;
static int inv(st_t s) { return s.w >= 0 && s.w <= 2 && (!s.waking || s.registered) && (s.w == W_F) == (s.registered && !s.waking) && (!s.pending || s.w == W_RAISED || s.waking); }
void lemma_L4_no_raise_is_lost(void) {
  st_t s; s.w = (int)verif_pick(3); s.pending = verif_bool(); s.waking = verif_bool(); s.registered = verif_bool();
  VASSUME(inv(s));
  int step = (int)verif_pick(5);
  switch (step) {
    case 0: /* R1 exchange */ if (s.w == W_F) s.waking = 1; s.w = W_RAISED; s.pending = 1; break;
    case 1: /* R2 reset by the raiser that took F (before scheduling it) */ VASSUME(s.w == W_RAISED && s.waking); s.w = W_NO; break;
    case 2: /* W1 register: CAS from NO */ VASSUME(s.w == W_NO && !s.registered); s.registered = 1; s.w = W_F; break;
    case 3: /* wait's CAS fails on RAISED, or the waiter is woken: it then clears the signal and RETURNS (the caller re-checks its queue): told */
            VASSUME((s.w == W_RAISED && !s.registered) || (s.registered && s.waking)); s.w = W_NO; s.pending = 0; s.waking = 0; s.registered = 0; break;
    case 4: /* another exchange while RAISED */ VASSUME(s.w == W_RAISED); s.pending = 1; break;
  }
  VASSERT(inv(s), "L: L4 a raise is never lost: after any step, a raise the waiter has not been told about is either recorded as RAISED or its raiser is waking the waiter");
  VCANARY("L4 premises satisfiable");
}
/* L5 — channel + signal: a receiver is never left asleep with a message queued and no raise under way (bounded / unbounded / sp channels).
 * Uses exactly the per-operation facts the function-level groups prove: a sender PUBLISHES its message first and RAISES second (send groups);
 * the receiver CHECKS the queue, and only after an empty check waits; wait registers by a CAS from NO, or finds RAISED, clears and returns; after
 * every return it checks again (receive groups); a raise that takes the waiter wakes it (signal_raise).
 *   s in {NO, RAISED, WAITER};  m = published, unreceived messages;  pend = senders that published and have not exchanged yet;
 *   wip = a raiser took the waiter out (1) and possibly reset the word (2) but has not yet woken it;  pc = receiver: check / saw_empty / registered */
enum { PC_CHECK, PC_SAW_EMPTY, PC_REGISTERED };
typedef struct { unsigned s, m, pend, wip, pc; } cs_t;
static int cinv(cs_t c) {
  return c.s <= W_F && c.wip <= 2 && c.pc <= PC_REGISTERED && c.m < (1u << 30) && c.pend < (1u << 30) &&
         ((c.s == W_F) == (c.pc == PC_REGISTERED && c.wip == 0)) && (c.wip == 0 || c.pc == PC_REGISTERED) && (c.wip != 1 || c.s == W_RAISED) &&
         (!(c.pc == PC_SAW_EMPTY && c.m > 0 && c.pend == 0) || c.s == W_RAISED) &&           /* a completed raise is remembered */
         !(c.pc == PC_REGISTERED && c.wip == 0 && c.m > 0 && c.pend == 0);                    /* KEY */
}
static int cact(int a, cs_t* c) {
  switch (a) {
    case 0: if (c->m >= (1u << 30) - 1 || c->pend >= (1u << 30) - 1) return 0; c->m++; c->pend++; return 1;   /* (capacity: fewer than 2^30 messages in flight) */                                                                 /* sender: publish */
    case 1: if (!c->pend) return 0; c->pend--; if (c->s == W_F) c->wip = 1; c->s = W_RAISED; return 1;      /* sender: exchange RAISED in (after its publish) */
    case 2: if (c->wip != 1) return 0; c->s = W_NO; c->wip = 2; return 1;                                   /* the raiser that took the waiter resets the word (optional) */
    case 3: if (!c->wip) return 0; c->wip = 0; c->s = W_NO; c->pc = PC_CHECK; return 1;                     /* ... wakes it: the waiter clears the word, returns, and CHECKS again */
    case 4: if (c->pc != PC_CHECK) return 0; if (c->m) c->m--; else c->pc = PC_SAW_EMPTY; return 1;         /* receiver: check (receive one message, or see the queue empty) */
    case 5: if (c->pc != PC_SAW_EMPTY) return 0;                                                            /* receiver: wait */
            if (c->s == W_NO) { c->s = W_F; c->pc = PC_REGISTERED; } else { c->s = W_NO; c->pc = PC_CHECK; } return 1;
    case 6: if (c->wip != 2 || c->s != W_NO || !c->pend) return 0; c->pend--; c->s = W_RAISED; return 1;    /* another sender raises between the reset and the wake-up */
  }
  return 0;
}
void lemma_L5_receiver_never_sleeps_on_a_message(void) {
  cs_t c; c.s = verif_u32(); c.m = verif_u32(); c.pend = verif_u32(); c.wip = verif_u32(); c.pc = verif_u32();
  VASSUME(cinv(c));
  int a = (int)verif_pick(7); VASSUME(cact(a, &c));
  VASSERT(cinv(c), "L: L5 publish-then-raise and check-wait-check keep: never registered (asleep) with a message queued and no raise under way");
  VCANARY("L5 premises satisfiable");
}
