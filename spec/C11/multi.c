/* C11 — multi channel (many senders, many receivers, mutex protected): fiber_multi_channel_send / receive / internal_wait / internal_wake
 * (woven /repo/include/fiber_multi_channel.h).  fiber_mutex_lock / unlock by contract (C05: mutual exclusion), manager yield / schedule by
 * contract (C01: the mutex named in mutex_to_unlock is released only after the switch; a scheduled fiber resumes).
 * State (all under channel->lock)   high, low, buffer, waiters = intrusive LIFO list (through fiber->scratch) of blocked senders AND receivers.
 * INV     low <= high, high - low <= size.
 * send     with the lock held and room left: stores the message at position high, high += 1, wakes ONE waiter if there is one (pops the list
 *          head, clears its link, READY, schedules it once), unlocks once.  While full: enqueues itself (link = old list head), WAITING, names
 *          the lock for release-after-switch, parks; re-acquires the lock and re-checks after every wake-up.
 * receive  symmetric: takes the message at position low (exactly that one: FIFO), clears the slot, low += 1, wakes ONE waiter, unlocks.
 * Nothing is read or written without the lock.
 */
#include "verif_rt.h"
#include "machine_specific.h"
#include "fiber.h"
#include "fiber_manager.h"
#define SIGNAL_RAISE_ASSIGNS manager->signal_spin_count   /* (fiber_signal_raise itself is proved in signal.c; unused here) */
#define SIGNAL_RAISE_INV 1
#include "fiber_mutex.h"
#ifndef PMAX
#define PMAX 3
#endif
typedef struct {
  int sender, locked, bad, ops, yields, scheduled, unlocks, locks;
  uint64_t h0, l0; void* msg; void* taken; fiber_t* w0; fiber_t* w0next; fiber_t* woken;
  uint64_t lH, lL; void* lcH; void* lcL; fiber_t* lW;
} ghost_t;
ghost_t G;
fiber_t ME, W1, W2;
fiber_manager_t VM0;
static int stub_lock(fiber_mutex_t* m);
static int stub_unlock(fiber_mutex_t* m);
#define fiber_mutex_lock(m) stub_lock(m)
#define fiber_mutex_unlock(m) stub_unlock(m)
#define MSIZE_OK(c) ((c)->size >= 2 && (c)->size <= (1u << PMAX) && ((c)->size & ((c)->size - 1)) == 0 && (c)->power_of_2_mod == (c)->size - 1)
/* create's allocator: records the request; hands back the static store declared below (create touches only the header) */
static size_t create_req; static int create_calls; static void* create_obj;
static void* stub_calloc(size_t n, size_t sz) { create_calls++; create_req = n * sz; return verif_bool() ? 0 : create_obj; }
static int create_frees;
static void stub_free(void* q) { if (q == create_obj) create_frees++; }
#define calloc stub_calloc
#define free stub_free
#include "fiber_multi_channel.h" /* woven */
#undef calloc
#undef free
#undef fiber_mutex_lock
#undef fiber_mutex_unlock
static struct { fiber_multi_channel_t c; void* cells[1 << PMAX]; } CHS;
#define CH (&CHS.c)
#define MASK ((uint64_t)CH->power_of_2_mod)
#define SLOT(i) (CH->buffer[(i) & MASK])
static fiber_t* pickw(void) { unsigned k = verif_pick(3); return k == 0 ? 0 : k == 1 ? &W1 : &W2; }
static fiber_t* canon(fiber_t* p) { return p == &ME ? &ME : p == &W1 ? &W1 : p == &W2 ? &W2 : 0; }
/* everything may have changed while I did not hold the lock (other senders/receivers ran), within INV */
static void havoc_state(void) {
  uint64_t H = verif_u64(), L = verif_u64(); VASSUME(L <= H && H - L <= CH->size && H < (1ull << 61)); CH->high = H; CH->low = L;
  SLOT(H) = (void*)verif_u64(); SLOT(L) = (void*)verif_u64();
  if (H > L) VASSUME(SLOT(L) != 0);
  CH->waiters = pickw(); W1.scratch = verif_bool() ? &W2 : 0; W2.scratch = 0;   /* an acyclic list of other blocked fibers */
  W1.state = W2.state = FIBER_STATE_WAITING;
}
static void spec_snap(void) { CH->waiters = canon(CH->waiters); G.lH = CH->high; G.lL = CH->low; G.lcH = SLOT(CH->high); G.lcL = SLOT(CH->low); G.lW = CH->waiters; }
static void spec_step(int site) {
  if (CH->high != G.lH || CH->low != G.lL || CH->waiters != G.lW || SLOT(G.lH) != G.lcH || SLOT(G.lL) != G.lcL)
    VASSERT(G.locked, "G: C11 the multi channel's state is written only with its lock held");
  if (CH->high != G.lH) { VASSERT(G.sender && G.ops == 0 && CH->high == G.lH + 1 && CH->high - CH->low <= CH->size, "G: C11 high advances by one per send, never beyond low + size");
    VASSERT(SLOT(G.lH) == G.msg, "G: C11 the message is stored at position high before high advances"); G.ops = 1; }
  if (CH->low != G.lL) { VASSERT(!G.sender && G.ops == 0 && CH->low == G.lL + 1 && G.lL < G.lH, "G: C11 low advances by one per receive, only when a message is there");
    VASSERT(SLOT(G.lL) == 0, "G: C11 the slot is cleared before low advances"); G.ops = 1; }
}
static void spec_env(int site) {}
static void spec_read(int site, void* addr) {
  if (__CPROVER_same_object(addr, &CHS) && addr != (void*)&CH->lock) VASSERT(G.locked, "O: C11 the multi channel's state is accessed only with its lock held");
}
#include "verif_point.inc"
fiber_manager_t* fiber_manager_get(void) { return &VM0; }
static int stub_lock(fiber_mutex_t* m) {
  verif_sync(-2);
  if (m != &CH->lock || G.locked) G.bad = 1;
  G.locked = 1; if (G.locks < 100) G.locks++;
  if (!G.ops) { havoc_state(); G.h0 = CH->high; G.l0 = CH->low; G.w0 = CH->waiters; G.w0next = G.w0 ? (fiber_t*)G.w0->scratch : 0; G.taken = SLOT(CH->low); }
  spec_snap(); return FIBER_SUCCESS;
}
static int stub_unlock(fiber_mutex_t* m) {
  verif_sync(-3);
  if (m != &CH->lock || !G.locked || !G.ops) G.bad = 1;
  G.locked = 0; G.unlocks++; return FIBER_SUCCESS;
}
void fiber_scheduler_schedule(fiber_scheduler_t* s, fiber_t* f) {
  verif_sync(-4);
  /* (whether the peer is woken before or after the ring is updated cannot be observed: both happen under the lock) */
  if (!G.locked || G.scheduled || f != G.w0 || f == 0 || f->state != FIBER_STATE_READY || f->scratch != 0 || CH->waiters != G.w0next) G.bad = 1;
  G.scheduled++; G.woken = f;
}
void fiber_manager_yield(fiber_manager_t* mgr) {
  verif_sync(-5);
  /* parking: I am the list head, my link is the old head, WAITING, the lock is named for release after the switch */
  if (mgr != &VM0 || !G.locked || G.ops || ME.state != FIBER_STATE_WAITING || CH->waiters != &ME || ME.scratch != (void*)G.w0 || VM0.mutex_to_unlock != &CH->lock) G.bad = 1;
  /* blocked only for the right reason, seen under the lock */
  if (G.sender ? (CH->high - CH->low < CH->size) : (CH->high > CH->low)) G.bad = 1;
  if (G.yields < 100) G.yields++;
  G.locked = 0; VM0.mutex_to_unlock = 0; ME.state = FIBER_STATE_RUNNING; ME.scratch = 0;   /* released after the switch; later popped and woken by a peer */
  spec_snap();
}
static void init_any(int sender) {
  G.sender = sender; G.locked = G.bad = G.ops = G.yields = G.scheduled = G.unlocks = G.locks = 0; G.woken = 0;
  G.msg = (void*)verif_u64(); VASSUME(G.msg != 0);
  unsigned pw = verif_pick(PMAX) + 1; CH->size = 1u << pw; CH->power_of_2_mod = CH->size - 1;
  VM0.current_fiber = &ME; VM0.scheduler = (fiber_scheduler_t*)&VM0; VM0.mutex_to_unlock = 0; ME.state = FIBER_STATE_RUNNING; ME.scratch = 0;
  havoc_state(); spec_snap();
}
static void common_post(void) {
  VASSERT(!G.bad && G.ops == 1 && !G.locked && G.unlocks == 1, "H: C11 the operation completes under the lock and releases it exactly once; it blocked only while full (send) / empty (receive), enqueued and parked by the protocol");
  VASSERT(G.w0 ? (G.scheduled == 1 && G.woken == G.w0 && CH->waiters == G.w0next) : (G.scheduled == 0 && CH->waiters == 0), "H: C11 every successful send/receive wakes exactly one blocked peer if there is one (list head popped, READY, scheduled once)");
}
void h_send(void) {
  init_any(1); fiber_multi_channel_send(CH, G.msg); verif_sync(-1); common_post();
  VASSERT(CH->high == G.h0 + 1 && CH->low == G.l0 && SLOT(G.h0) == G.msg && G.h0 - G.l0 < CH->size, "H: C11 send stores its message at position high of a non-full channel and advances high");
  VCANARY("send can return");
}
void h_receive(void) {
  init_any(0); void* r = fiber_multi_channel_receive(CH); verif_sync(-1); common_post();
  VASSERT(CH->low == G.l0 + 1 && CH->high == G.h0 && G.h0 > G.l0 && r == G.taken && r != 0 && SLOT(G.l0) == 0, "H: C11 receive returns the message at position low of a non-empty channel, clears the slot and advances low");
  VCANARY("receive can return");
}
/* fiber_mutex_init by its contract (proved in C03's init group) */
int fiber_mutex_init(fiber_mutex_t* m) { m->counter = 1; return verif_bool() ? FIBER_SUCCESS : FIBER_ERROR; }
void h_create(void) {
  uint32_t k = (uint32_t)verif_u64(); VASSUME(k >= 1 && k < 32);
  create_calls = 0; create_req = 0; create_frees = 0; create_obj = &CHS;
  fiber_multi_channel_t* r = fiber_multi_channel_create(k);
  VASSERT(create_calls == 1 && create_req >= sizeof(fiber_multi_channel_t) + ((size_t)1 << k) * sizeof(void*),
          "H: C11 create: the allocation holds the header and all 2^k slots, for every k the interface admits (1..31)");
  if (r) VASSERT(r == CH && r->size == ((size_t)1 << k) && r->power_of_2_mod == r->size - 1 && r->high == r->low && r->lock.counter == 1,
                 "H: C11 create: capacity 2^k, mask 2^k - 1, empty, free lock");
  else VASSERT(create_frees <= 1, "H: C11 a failed create frees its allocation at most once");
  VCANARY("create can return");
}
