WEAVE = [dict(file='src/fiber_scheduler_wsd.c', fns=['fiber_scheduler_schedule', 'fiber_scheduler_next'], loops='loops.json')]
DQ = ['wsd_work_stealing_deque_push_bottom', 'wsd_work_stealing_deque_pop_bottom', 'wsd_work_stealing_deque_size']
GROUPS = [
    dict(name='schedule', tu='sched.c', harness='h_schedule', mode='D', enforce='fiber_scheduler_schedule', replace=DQ, functions=['fiber_scheduler_schedule'], no_native='callee contracts only in DFCC form'),
    dict(name='next', tu='sched.c', harness='h_next', mode='D', enforce='fiber_scheduler_next', replace=DQ, functions=['fiber_scheduler_next'], no_native='callee contracts only in DFCC form'),
    dict(name='init', tu='sched.c', harness='h_init', mode='H', functions=['fiber_scheduler_wsd_init'], unwind=2, exact_unwind=True),
    dict(name='init_all', tu='sched.c', harness='h_init_all', mode='H', functions=['fiber_scheduler_init', 'fiber_scheduler_wsd_init', 'fiber_scheduler_for_thread'], unwind=3, exact_unwind=True, cbmc_flags=['--no-malloc-may-fail']),
]
ASSUMPTIONS = ['deque operations by the owner-side contracts enforced under C02; thieves only take from the top',
               'the scheduler object is used only by its own kernel thread (C01 ownership)']
# obligation groups of other properties' specifications that this property also rests on (its anchors name those files); see DESIGN.md 11.2
IMPORTS = [dict(prop='C01', groups=['yield_switch', 'maintenance']), dict(prop='C02', groups=['load_balance_N1', 'load_balance_N2', 'load_balance_N3'])]
