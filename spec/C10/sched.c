/* C10 — yield fairness at the run-queue level.  Refinement of the real fiber_scheduler_schedule / fiber_scheduler_next
 * (woven /repo/src/fiber_scheduler_wsd.c) against deque contracts (C02) with a ranking ghost for one observed ready fiber X.
 *
 * Ghost   len[i]   entries in the calling thread's deque i (0 = queue_one, 1 = queue_two)
 *         whereX   deque holding X's entry (-1: not queued here: running, stolen, or elsewhere);  aboveX entries nearer to the
 *                  bottom than X in that deque (the owner pops from the bottom, so these run before X)
 *         rank(X) = aboveX                         if X sits in schedule_from
 *                 = len[schedule_from] + aboveX    if X sits in store_to            (owner pops that precede X's turn)
 * Property (safety form of bounded bypass, from the statement): while X stays queued on this thread
 *         schedule(Y), Y != X, never increases rank(X) when X sits in schedule_from, and by at most 1 when X sits in store_to;
 *         next() that returns some Y not in {NULL, X} strictly decreases rank(X).
 *         Hence X is bypassed at most len[schedule_from] + len[store_to] times — bounded by the number of ready fibers,
 *         however long the others keep yielding (lemma file).
 * Interference: thieves take entries from the TOP of either deque (the oldest end): len shrinks; X itself may be stolen
 *         (then it runs elsewhere and the obligation ends).
 */
#include "verif_rt.h"
#include "fiber.h"
#include "fiber_scheduler.h"
#include "work_stealing_deque.h"
#define CAP 0x3FFFFFFF
typedef struct {
  long len[2];
  int whereX; long aboveX;
  long pops, pushes; /* deque operations performed by me in this call (saturating at 2) */
  int returnedX;
  int q0;     /* X was queued on this thread when the call started */
  long rank0; /* rank(X) when the call started (meaningful while X stays queued here) */
} ghost_t;
ghost_t G;
fiber_t FX, FY, FZ;              /* X = observed fiber, Y = the fiber being scheduled, Z = some other fiber popped */
wsd_work_stealing_deque_t Q1, Q2;

#define RANK_OF(s) (G.whereX == IDX((s)->schedule_from) ? G.aboveX : G.len[IDX((s)->schedule_from)] + G.aboveX)
#define IDX(d) ((d) == &Q2)
#define SHAPE_OF(s) ((s)->queue_one == &Q1 && (s)->queue_two == &Q2 && (((s)->schedule_from == &Q1 && (s)->store_to == &Q2) || ((s)->schedule_from == &Q2 && (s)->store_to == &Q1)))
#define GINV (G.len[0] >= 0 && G.len[1] >= 0 && G.len[0] <= CAP && G.len[1] <= CAP && G.whereX >= -1 && G.whereX <= 1 && G.aboveX >= 0 && \
              (G.whereX < 0 || G.aboveX < G.len[G.whereX]) && (G.whereX >= 0 || G.aboveX == 0))

#include "src/fiber_scheduler_wsd.c"

fiber_scheduler_wsd_t S;
#define FROMI IDX(S.schedule_from)
#define TOI IDX(S.store_to)
#define SHAPE SHAPE_OF(&S)
static long rank_now(void) { return G.whereX < 0 ? 0 : (G.whereX == FROMI ? G.aboveX : G.len[FROMI] + G.aboveX); }

static void spec_snap(void) {}
static void spec_step(int site) {}
/* thieves: take from the top */
static void thieves1(int i) {
  long n = (long)verif_u64();
  VASSUME(n >= 0 && n <= G.len[i]);
  if (G.whereX == i && n < G.aboveX + 1) { G.whereX = -1; G.aboveX = 0; } /* X was at the top and got stolen */
  G.len[i] = n;
}
static void thieves(void) { thieves1(0); thieves1(1); }
static void spec_env(int site) { thieves(); }
static void spec_read(int site, void* addr) {}
#include "verif_point.inc"

static int PRE(void) { return SHAPE && GINV && G.pops == 0 && G.pushes == 0 && G.returnedX == 0 && G.rank0 == rank_now() && G.q0 == (G.whereX >= 0); }
/* ---- deque contracts (owner side), enforced on the real deque under C02 ---- */
static int PRE_push(wsd_work_stealing_deque_t* d, void* p) { return (d == &Q1 || d == &Q2) && (p == &FX || p == &FY || p == &FZ) && (p != &FX || G.whereX < 0); } /* capacity A5 (fewer than 2^30 entries) is part of the ensures */
static int POST_push(ghost_t o, wsd_work_stealing_deque_t* d, void* p) {
  int i = IDX(d);
  /* thieves may have run before my push took effect; then my entry goes on the bottom */
  if (!(GINV && G.pops == o.pops && G.pushes == (o.pushes < 2 ? o.pushes + 1 : 2) && G.returnedX == o.returnedX && G.rank0 == o.rank0 && G.q0 == o.q0)) return 0;
  if (G.len[1 - i] > o.len[1 - i] || G.len[i] > o.len[i] + 1 || G.len[i] < 1) return 0;
  if (p == &FX) return G.whereX == i && G.aboveX == 0;
  if (o.whereX < 0) return G.whereX < 0;
  if (G.whereX < 0) return 1; /* X stolen meanwhile */
  return G.whereX == o.whereX && G.aboveX == o.aboveX + (o.whereX == i);
}
static int PRE_pop(wsd_work_stealing_deque_t* d) { return d == &Q1 || d == &Q2; }
static int POST_pop(ghost_t o, wsd_work_stealing_deque_t* d, void* r) {
  int i = IDX(d);
  if (!(GINV && G.pushes == o.pushes && G.returnedX == o.returnedX && G.rank0 == o.rank0 && G.q0 == o.q0 && G.len[1 - i] <= o.len[1 - i])) return 0;
  if (r == WSD_EMPTY || r == WSD_ABORT) return G.pops == o.pops && G.len[i] <= o.len[i] && (o.whereX < 0 ? G.whereX < 0 : (G.whereX < 0 || (G.whereX == o.whereX && G.aboveX == o.aboveX)));
  if (G.pops != (o.pops < 2 ? o.pops + 1 : 2) || !(G.len[i] <= o.len[i] - 1)) return 0;
  if (r == &FX) return o.whereX == i && o.aboveX == 0 && G.whereX < 0;   /* X comes out only when nothing is above it */
  if (!(r == &FY || r == &FZ)) return 0;
  if (o.whereX < 0) return G.whereX < 0;
  if (G.whereX < 0) return 1; /* X stolen meanwhile */
  if (o.whereX == i) return o.aboveX >= 1 && G.whereX == i && G.aboveX == o.aboveX - 1; /* the popped entry was above X */
  return G.whereX == o.whereX && G.aboveX == o.aboveX;
}
static int POST_size(ghost_t o, wsd_work_stealing_deque_t* d, size_t r) {
  int i = IDX(d);
  /* bottom is mine and top only grows: the hint lies between the length afterwards and the length before */
  return GINV && G.pops == o.pops && G.pushes == o.pushes && G.returnedX == o.returnedX && G.rank0 == o.rank0 && G.q0 == o.q0 && G.len[0] <= o.len[0] && G.len[1] <= o.len[1] &&
         (long)r >= G.len[i] && (long)r <= o.len[i] && r <= CAP &&
         (o.whereX < 0 ? G.whereX < 0 : (G.whereX < 0 || (G.whereX == o.whereX && G.aboveX == o.aboveX)));
}
/* ---- the property ---- */
static int POST_schedule(ghost_t o, wsd_work_stealing_deque_t* from_q) {
  int from_before = IDX(from_q);
  if (!(SHAPE && GINV && G.pushes == 1 && G.pops == 0)) return 0;
  if (o.whereX < 0 || G.whereX < 0) return 1; /* X not queued here (any more) */
  long before = (o.whereX == from_before) ? o.aboveX : o.len[from_before] + o.aboveX;
  if (o.whereX == from_before) return rank_now() <= before;      /* C10: a newly runnable fiber never goes in front of X */
  return rank_now() <= before + 1;
}
static int POST_next(ghost_t o, wsd_work_stealing_deque_t* from_q, fiber_t* r) {
  int from_before = IDX(from_q);
  if (!(SHAPE && GINV)) return 0;
  if (r == &FX) return o.whereX >= 0;
  if (o.whereX < 0 || G.whereX < 0 || r == 0) return 1;
  long before = (o.whereX == from_before) ? o.aboveX : o.len[from_before] + o.aboveX;
  return rank_now() + 1 <= before;                                /* C10: every other fiber handed out brings X's turn closer */
}
#if defined(VERIF_MODE_D)
void fiber_scheduler_schedule(fiber_scheduler_t* scheduler, fiber_t* the_fiber)
  __CPROVER_requires(scheduler == (fiber_scheduler_t*)&S && the_fiber == &FY && PRE())
  __CPROVER_ensures(POST_schedule(__CPROVER_old(G), __CPROVER_old(S.schedule_from))) __CPROVER_assigns(G);
fiber_t* fiber_scheduler_next(fiber_scheduler_t* sched)
  __CPROVER_requires(sched == (fiber_scheduler_t*)&S && PRE())
  __CPROVER_ensures(POST_next(__CPROVER_old(G), __CPROVER_old(S.schedule_from), __CPROVER_return_value)) __CPROVER_assigns(G, S.schedule_from, S.store_to);
void wsd_work_stealing_deque_push_bottom(wsd_work_stealing_deque_t* d, void* p)
  __CPROVER_requires(PRE_push(d, p)) __CPROVER_ensures(POST_push(__CPROVER_old(G), d, p)) __CPROVER_assigns(G);
void* wsd_work_stealing_deque_pop_bottom(wsd_work_stealing_deque_t* d)
  __CPROVER_requires(PRE_pop(d)) __CPROVER_ensures(POST_pop(__CPROVER_old(G), d, __CPROVER_return_value)) __CPROVER_assigns(G);
static inline size_t wsd_work_stealing_deque_size(wsd_work_stealing_deque_t* d)
  __CPROVER_requires(PRE_pop(d)) __CPROVER_ensures(POST_size(__CPROVER_old(G), d, __CPROVER_return_value)) __CPROVER_assigns(G);
#endif
static void init_any(void) {
  S.queue_one = &Q1; S.queue_two = &Q2;
  if (verif_bool()) { S.schedule_from = &Q1; S.store_to = &Q2; } else { S.schedule_from = &Q2; S.store_to = &Q1; }
  G.len[0] = (long)verif_u64(); G.len[1] = (long)verif_u64(); G.whereX = verif_int(); G.aboveX = (long)verif_u64();
  G.pops = G.pushes = 0; G.returnedX = 0; G.rank0 = (long)verif_u64(); G.q0 = verif_bool();
  FX.state = FIBER_STATE_READY; FY.state = verif_int(); FZ.state = verif_int();
}
void h_schedule(void) { init_any(); VASSUME(PRE()); ghost_t o = G; wsd_work_stealing_deque_t* fb = S.schedule_from; fiber_scheduler_schedule((fiber_scheduler_t*)&S, &FY);
  VASSERT(POST_schedule(o, fb), "H: C10 schedule() never puts a newly runnable fiber in front of a fiber already waiting in the queue being drained"); VCANARY("schedule can return"); }
void h_next(void) { init_any(); VASSUME(PRE()); ghost_t o = G; wsd_work_stealing_deque_t* fb = S.schedule_from; fiber_t* r = fiber_scheduler_next((fiber_scheduler_t*)&S);
  VASSERT(POST_next(o, fb, r), "H: C10 every fiber next() hands out other than X brings X's turn strictly closer"); VCANARY("next can return"); }
/* ---- base case: fiber_scheduler_wsd_init / fiber_scheduler_init establish SHAPE (two DISTINCT deques, schedule_from and store_to one each) for
 * every kernel thread, and publish exactly those deques, in order, in the table the thieves walk (C02 load_balance).  Deque creation by contract
 * (a fresh empty deque, or NULL). ---- */
static wsd_work_stealing_deque_t DQS[4]; static int dq_made, dq_destroyed, dq_fail;
wsd_work_stealing_deque_t* wsd_work_stealing_deque_create(void) { if (dq_fail && verif_bool()) return 0; VASSUME(dq_made < 4); return &DQS[dq_made++]; }
void wsd_work_stealing_deque_destroy(wsd_work_stealing_deque_t* d) { if (d) dq_destroyed++; }
void h_init(void) {
  static fiber_scheduler_wsd_t X; memset(&X, (int)verif_u64(), sizeof(X)); size_t id = (size_t)verif_u64();
  dq_made = dq_destroyed = 0; dq_fail = 1;
  int r = fiber_scheduler_wsd_init(&X, id);
  if (r) VASSERT(X.queue_one == &DQS[0] && X.queue_two == &DQS[1] && X.schedule_from == X.queue_one && X.store_to == X.queue_two && X.id == id && dq_destroyed == 0,
                 "H: C10 init: two distinct deques; one is drained (schedule_from), newly runnable fibers go to the other (store_to); whatever the memory held");
  else VASSERT(dq_destroyed == dq_made, "H: C10 a failed init destroys the deques it created");
  VCANARY("wsd_init can return");
}
void h_init_all(void) {
  dq_made = dq_destroyed = 0; dq_fail = 0; fiber_schedulers = 0; fiber_scheduler_thread_queues = 0;
  int r = fiber_scheduler_init(2);
  VASSERT(r == 1 && fiber_scheduler_num_threads == 2 && fiber_schedulers != 0 && fiber_scheduler_thread_queues != 0, "H: C10 init_all: two schedulers");
  for (int i = 0; i < 2; i++) {
    fiber_scheduler_wsd_t* s = (fiber_scheduler_wsd_t*)fiber_scheduler_for_thread((size_t)i);
    VASSERT(s == &fiber_schedulers[i] && s->id == (size_t)i && s->queue_one != s->queue_two && s->schedule_from == s->queue_one && s->store_to == s->queue_two,
            "H: C10 init_all: every kernel thread gets its own scheduler with two distinct deques");
    VASSERT(fiber_scheduler_thread_queues[2 * i] == s->queue_one && fiber_scheduler_thread_queues[2 * i + 1] == s->queue_two,
            "H: C10 init_all: the table the thieves walk lists exactly each thread's two deques, at 2i and 2i+1");
  }
  VASSERT(fiber_schedulers[0].queue_one != fiber_schedulers[1].queue_one && fiber_schedulers[0].queue_one != fiber_schedulers[1].queue_two &&
          fiber_schedulers[0].queue_two != fiber_schedulers[1].queue_one && fiber_schedulers[0].queue_two != fiber_schedulers[1].queue_two, "H: C10 init_all: no deque is shared between kernel threads");
  VCANARY("scheduler_init can return");
}
