WEAVE = [dict(file='include/mpmc_fifo.h', parse='test/test_mpmc_fifo.c', fns=['mpmc_fifo_push', 'mpmc_fifo_trypop'], loops='loops.json'),
         dict(file='include/hazard_pointer.h', parse='test/test_mpmc_fifo.c', fns=['hazard_pointer_using', 'hazard_pointer_done_using'], split_rmw=False)]
GROUPS = [
    dict(name='fifo_trypop', tu='fifo.c', harness='h_trypop', mode='H', loop_contracts=True, defs=['-DVERIF_LOOP_FLAG'], functions=['mpmc_fifo_trypop', 'hazard_pointer_using', 'hazard_pointer_done_using'], unwind=6, exact_unwind=True, timeout=900),
    dict(name='fifo_init', tu='fifo.c', harness='h_init', mode='H', defs=['-DVERIF_LOOP_FLAG'], functions=['mpmc_fifo_init'], unwind=2, exact_unwind=True),
    dict(name='fifo_push', tu='fifo.c', harness='h_push', mode='H', loop_contracts=True, defs=['-DVERIF_LOOP_FLAG'], functions=['mpmc_fifo_push', 'hazard_pointer_using', 'hazard_pointer_done_using'], unwind=6, exact_unwind=True, timeout=900),
]
# the reclamation layer the FIFO's safety rests on (anchors: hazard_pointer.h, hazard_pointer.c): C14's obligation groups, run here as well
IMPORTS = [dict(prop='C14', groups=['compare', 'binary_search_safety', 'binary_search_le6', 'scan_2x2', 'using_free'])]
TRUSTED = ['hazard_pointer_free: by contract here (retire this node); its own behaviour is C14 (groups using_free, scan_2x2)']
ASSUMPTIONS = ['A.7 hazard-pointer rely: a node found equal to fifo->head/tail by a read that follows the publication of a hazard pointer to it (store, full fence, re-read) is not reclaimed until that slot is overwritten (this is what C14 proves of scan, bounded)',
               'SC; weak CAS modelled strong (A3)', 'node pool of 4 queue nodes + mine; every reuse/ABA pattern among them']
