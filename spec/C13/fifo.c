/* C13 / C14 — the MPMC FIFO built on hazard pointers: mpmc_fifo_trypop / mpmc_fifo_push (woven /repo/include/mpmc_fifo.h) with the real
 * hazard_pointer_using / hazard_pointer_done_using (woven /repo/include/hazard_pointer.h); hazard_pointer_free by contract (C14 group using_free).
 *
 * Thread-modular (rely/guarantee) proof of ONE popper / ONE pusher against any number of other pushers and poppers.
 * Pool    NODES[0..3] = nodes that are, were or will be in the queue (they may be popped, retired, reclaimed, reused and pushed again: ABA);
 *         NODES[4] = MINE, the node I push.
 * Protection (design A.7, the hazard-pointer rely — what C14's scan guarantees to its users):
 *         slot k of my record protects node X from the instant I read fifo->head (or ->tail) and find it equal to X while slot k already
 *         holds X (published, fence, validating re-read): X is in the queue at that instant, so it is not yet retired, so every later scan sees
 *         my slot.  Also: if head == H at that instant, H has been protected since I read H->prev == P != NULL, and slot k holds P, then P is
 *         protected (prev is written once; P is in the queue while H is the head).  Overwriting or clearing the slot ends the protection.
 * Rely    a protected node is not reclaimed: its value does not change, its prev changes only from NULL to a node; everything else — head, tail,
 *         and every field of every unprotected node that I do not own — changes arbitrarily (reclaimed, reused, pushed again).
 * Guarantee / obligations
 *   O:C14  every access to a node's fields happens while I own the node or one of my validated slots protects it   (no reclaimed node is dereferenced)
 *   G:C13  my only write to fifo->head is ONE CAS from the CURRENT head H to H's CURRENT prev (non-NULL) — the abstract pop; the value returned
 *          is that node's value at that instant; the node retired (exactly once, after the CAS) is H, nothing else is retired
 *   G:C13  my only write to fifo->tail is ONE CAS to MINE (prev == NULL, value set) — the abstract push; afterwards I link old_tail->prev = MINE,
 *          exactly once, and touch MINE no more; no other node field is written
 *   H:C13  trypop returns NULL only after reading prev == NULL from a node it had validated as the head (queue empty, or a push in flight, at
 *          the validation instant), having changed nothing.
 */
#include "verif_rt.h"
#include <stddef.h>
#include "machine_specific.h"
#include "hazard_pointer.h" /* woven: using / done_using */
static void stub_hp_free(hazard_pointer_thread_record_t* hptr, hazard_node_t* node);
#define hazard_pointer_free(h, n) stub_hp_free((h), (n))
#define NN 5
typedef struct {
  int is_push;
  int prot[2];            /* slot k's current content is validated */
  int vh[2];              /* slot k's node was validated AS THE HEAD */
  int kp_valid, kp_slot; struct mpmc_fifo_node *kp_of, *kp;   /* I read kp_of->prev == kp (non-NULL) while slot kp_slot protected kp_of, and it still does */
  int pops, retired, saw_empty, bad; struct mpmc_fifo_node* popped; void* val;
  int swung, linked; struct mpmc_fifo_node* swung_from;
  /* snapshot */
  struct mpmc_fifo_node *l_head, *l_tail, *l_head_prev; void* l_head_prev_value;
  hazard_node_t* l_slot[2];
  struct mpmc_fifo_node* l_prev[NN]; struct mpmc_fifo_node* l_next[NN]; void* l_value[NN];
} ghost_t;
ghost_t G;
extern struct mpmc_fifo_node* const NODESP;   /* (the loop invariants name the pool; the node type is complete only inside the header) */
#define NODES NODESP
#define FHEAD(f) (*(struct mpmc_fifo_node**)(void*)(f))
#define FTAIL(f) (*(struct mpmc_fifo_node**)&(f)->tail)
/* call-free shape predicates (loop invariants) */
#define POOLQ(p) ((p) == &NODES[0] || (p) == &NODES[1] || (p) == &NODES[2] || (p) == &NODES[3])
#define POOLA(p) (POOLQ(p) || (p) == &NODES[4])
#define POOLA0(p) ((p) == 0 || POOLA(p))
#define HZ0(h) ((h) == 0 || (h) == &NODES[0].hazard || (h) == &NODES[1].hazard || (h) == &NODES[2].hazard || (h) == &NODES[3].hazard || (h) == &NODES[4].hazard)
#include "mpmc_fifo.h" /* woven */
#undef hazard_pointer_free

#define MINE_I 4
static mpmc_fifo_node_t NODES_[NN]; mpmc_fifo_node_t* const NODESP = NODES_;
#define MINE NODES[MINE_I]
mpmc_fifo_t F;
struct { hazard_pointer_thread_record_t r; hazard_node_t* slots[2]; } REC;
#define SLOT(k) (REC.r.hazard_pointers[k])

#define HEADP (*(mpmc_fifo_node_t**)(void*)&F)   /* head is the first member (volatile-qualified: a volatile read is a side effect for CBMC) */
#define TAILP (*(mpmc_fifo_node_t**)&F.tail)
static mpmc_fifo_node_t* pickq(void) { return &NODES[verif_pick(4)]; }
static mpmc_fifo_node_t* picka0(void) { unsigned k = verif_pick(6); return k < 5 ? &NODES[k] : 0; }
static mpmc_fifo_node_t* canon(mpmc_fifo_node_t* p) { return p == &NODES[0] ? &NODES[0] : p == &NODES[1] ? &NODES[1] : p == &NODES[2] ? &NODES[2] : p == &NODES[3] ? &NODES[3] : p == &NODES[4] ? &NODES[4] : 0; }
static hazard_node_t* canonh(hazard_node_t* h) { return h == &NODES[0].hazard ? &NODES[0].hazard : h == &NODES[1].hazard ? &NODES[1].hazard : h == &NODES[2].hazard ? &NODES[2].hazard : h == &NODES[3].hazard ? &NODES[3].hazard : h == &NODES[4].hazard ? &NODES[4].hazard : 0; }
static int idx_of(mpmc_fifo_node_t* p) { return p == &NODES[0] ? 0 : p == &NODES[1] ? 1 : p == &NODES[2] ? 2 : p == &NODES[3] ? 3 : p == &NODES[4] ? 4 : -1; }
static mpmc_fifo_node_t* node_of(hazard_node_t* h) { return h == 0 ? 0 : canon((mpmc_fifo_node_t*)h); }   /* hazard is the first member */
/* (ghost code is kept loop-free: loops inside a contracted loop would each need a contract of their own) */
#define ALL5(M) M(0) M(1) M(2) M(3) M(4)
#define CANON_NODE(i) { NODES[i].prev = canon(NODES[i].prev); NODES[i].next = canon(NODES[i].next); }
static void canon_all(void) {
  HEADP = canon(HEADP); TAILP = canon(TAILP); SLOT(0) = canonh(SLOT(0)); SLOT(1) = canonh(SLOT(1));
  ALL5(CANON_NODE)
}
static int protected_by_slot(mpmc_fifo_node_t* x) { if (!x) return -1; if (G.prot[0] && node_of(SLOT(0)) == x) return 0; if (G.prot[1] && node_of(SLOT(1)) == x) return 1; return -1; }
/* nodes that are mine for the moment: MINE until I publish it; the head I unlinked; (push) the old tail between my CAS and my link */
static int owned(mpmc_fifo_node_t* x) {
  if (G.is_push) return (x == &MINE && !G.swung) ;
  return G.pops && x == G.popped;
}
static int stable(mpmc_fifo_node_t* x) { return protected_by_slot(x) >= 0 || owned(x) || (G.is_push && G.swung && !G.linked && (x == G.swung_from || x == &MINE)); }
static void spec_snap(void) {
  canon_all();
  G.l_head = HEADP; G.l_tail = TAILP; G.l_head_prev = HEADP ? HEADP->prev : 0; G.l_head_prev_value = G.l_head_prev ? G.l_head_prev->value : 0;
  G.l_slot[0] = SLOT(0); G.l_slot[1] = SLOT(1);
#define SNAP_NODE(i) { G.l_prev[i] = NODES[i].prev; G.l_next[i] = NODES[i].next; G.l_value[i] = NODES[i].value; }
  ALL5(SNAP_NODE)
}
static void step_slot(int k) {
  if (SLOT(k) != G.l_slot[k]) {   /* overwriting or clearing a slot ends what it protected */
    G.prot[k] = 0; G.vh[k] = 0; if (G.kp_valid && G.kp_slot == k) G.kp_valid = 0;
  }
}
static void step_node(int i) {
  if (NODES[i].prev != G.l_prev[i]) {
    if (!(i == MINE_I && G.is_push && !G.swung)) {   /* (preparing my own unpublished node is free) */
      VASSERT(G.is_push && G.swung && !G.linked && &NODES[i] == G.swung_from && NODES[i].prev == &MINE, "G: C13 the only prev link I write is old_tail->prev = my node, once, after my tail CAS");
      G.linked = 1;
    }
  }
  if (NODES[i].next != G.l_next[i]) VASSERT(i == MINE_I && G.is_push && !G.swung, "G: C13 no node's next is written except my own unpublished node's");
  if (NODES[i].value != G.l_value[i]) VASSERT(0, "G: C13 no node's value is written by push or pop");
}
static void spec_step(int site) {
  step_slot(0); step_slot(1);
  if (HEADP != G.l_head) {
    VASSERT(!G.is_push && G.pops == 0, "G: C13 my only write to fifo->head is one successful CAS of a pop");
    VASSERT(G.l_head_prev != 0 && HEADP == G.l_head_prev, "G: C13 pop swings head from the CURRENT head to that head's CURRENT prev (never a stale or recycled link)");
    G.pops = 1; G.popped = G.l_head; G.val = G.l_head_prev_value;
  }
  if (TAILP != G.l_tail) {
    VASSERT(G.is_push && G.swung == 0 && TAILP == &MINE, "G: C13 my only write to fifo->tail is one successful CAS that installs my node");
    VASSERT(G.l_prev[MINE_I] == 0 && G.l_value[MINE_I] != 0, "G: C13 a node is published with prev == NULL and its value set");
    G.swung = 1; G.swung_from = G.l_tail;
  }
  step_node(0); step_node(1); step_node(2); step_node(3); step_node(4);
}
static void env_node(int i) {
  mpmc_fifo_node_t* x = &NODES[i];
  if (owned(x)) return;
  mpmc_fifo_node_t* np = picka0(); VASSUME(np != x);
  if (G.is_push && !G.swung) VASSUME(np != &MINE);
  if (!G.is_push && G.pops) VASSUME(np != G.popped);
  if (G.is_push && G.swung && !G.linked && x == G.swung_from) return;                   /* only I link the old tail */
  if (stable(x)) { if (x->prev == 0 && verif_bool()) x->prev = np; }                    /* written once, by the pusher that swung tail from x */
  else { x->prev = np; x->next = picka0(); void* v = (void*)verif_u64(); VASSUME(v != 0); x->value = v; }   /* reclaimed, reused, pushed again */
}
static void spec_env(int site) {
  canon_all();
  if (verif_bool()) return;
  /* head and tail: anywhere (my unpublished node is not reachable) */
  if (!(G.is_push == 0 && G.pops)) { mpmc_fifo_node_t* h = G.is_push && !G.swung ? pickq() : (mpmc_fifo_node_t*)canon(picka0()); VASSUME(h != 0); HEADP = h; }
  else { mpmc_fifo_node_t* h = picka0(); VASSUME(h != 0 && h != G.popped); HEADP = h; }   /* the node I unlinked is mine until I retire it */
  { mpmc_fifo_node_t* t = G.is_push && !G.swung ? pickq() : picka0(); VASSUME(t != 0);
    if (G.is_push && G.swung && !G.linked) { /* MINE cannot be popped before I link it, so the tail is MINE or something pushed after it */ VASSUME(t != G.swung_from); }
    TAILP = t; }
  env_node(0); env_node(1); env_node(2); env_node(3); env_node(4);
}
static void validate_slot(int k, mpmc_fifo_node_t* v, int is_head) {
  mpmc_fifo_node_t* x = node_of(SLOT(k));
  if (!x) return;
  if (x == v) { G.prot[k] = 1; if (is_head) G.vh[k] = 1; }
  else if (is_head && G.kp_valid && G.kp_of == v && G.kp == x && G.kp_slot != k && protected_by_slot(v) == G.kp_slot) G.prot[k] = 1;
}
static void spec_read(int site, void* addr) {
  if (addr == (void*)&F.head || addr == (void*)&F.tail) {
    mpmc_fifo_node_t* v = addr == (void*)&F.head ? HEADP : TAILP;
    validate_slot(0, v, addr == (void*)&F.head); validate_slot(1, v, addr == (void*)&F.head);
    return;
  }
  if (__CPROVER_same_object(addr, NODES)) {
    size_t off = (size_t)((char*)addr - (char*)NODES); int i = (int)(off / sizeof(mpmc_fifo_node_t)); size_t fo = off % sizeof(mpmc_fifo_node_t);
    mpmc_fifo_node_t* x = &NODES[i];
    VASSERT(stable(x), "O: C14 a node's fields are accessed only while I own it or a validated hazard pointer of mine protects it (no reclaimed node is dereferenced)");
    if (G.is_push && G.linked) VASSERT(x != &MINE, "O: C13 my node belongs to the queue once it is linked; I do not touch it again");
    if (fo == offsetof(mpmc_fifo_node_t, prev)) {
      int k = protected_by_slot(x);
      if (k >= 0 && x->prev != 0) { G.kp_valid = 1; G.kp_slot = k; G.kp_of = x; G.kp = x->prev; }
      if (x->prev == 0 && !G.is_push && ((G.prot[0] && G.vh[0] && node_of(SLOT(0)) == x) || (G.prot[1] && G.vh[1] && node_of(SLOT(1)) == x))) G.saw_empty = 1;
    }
  }
}
#include "verif_point.inc"
static void stub_hp_free(hazard_pointer_thread_record_t* hptr, hazard_node_t* node) {
  verif_sync(-2);
  VASSERT(!G.is_push && G.pops == 1 && G.retired == 0 && hptr == &REC.r && node == &G.popped->hazard, "G: C13 the node retired is the head my CAS unlinked, exactly once");
  G.retired = 1;
}
static void init_any(int is_push) {
  G.is_push = is_push; G.prot[0] = G.prot[1] = 0; G.vh[0] = G.vh[1] = 0; G.kp_valid = 0; G.pops = G.retired = G.saw_empty = G.bad = 0; G.swung = G.linked = 0; G.popped = 0; G.swung_from = 0;
  REC.r.hazard_pointers_count = 2; SLOT(0) = SLOT(1) = 0; REC.r.retire_threshold = 8;
  if (is_push) { HEADP = pickq(); TAILP = pickq(); } else { HEADP = &NODES[verif_pick(5)]; TAILP = &NODES[verif_pick(5)]; }
#define INIT_NODE(i) if (i < 4 || !is_push) { mpmc_fifo_node_t* p = picka0(); VASSUME(p != &NODES[i] && (!is_push || p != &MINE)); NODES[i].prev = p; NODES[i].next = picka0(); void* v = (void*)verif_u64(); VASSUME(v != 0); NODES[i].value = v; }
  ALL5(INIT_NODE)
  if (is_push) { MINE.prev = picka0(); MINE.next = picka0(); void* v = (void*)verif_u64(); VASSUME(v != 0); MINE.value = v; }
  spec_snap();
}
void h_trypop(void) {
  init_any(0);
  void* r = mpmc_fifo_trypop(&REC.r, &F); verif_sync(-1);
  if (r == 0) VASSERT(G.pops == 0 && G.retired == 0 && G.saw_empty, "H: C13 trypop reports empty only after reading prev == NULL from a node it had validated as the head; nothing changed");
  else VASSERT(G.pops == 1 && G.retired == 1 && r == G.val, "H: C13 trypop returns the value of exactly the node its CAS made the new head, and retires the old head once");
  VCANARY("trypop can return");
}
void h_push(void) {
  init_any(1);
  mpmc_fifo_push(&REC.r, &F, &MINE); verif_sync(-1);
  VASSERT(G.swung == 1 && G.linked == 1, "H: C13 push publishes its node with one tail CAS and links it (old_tail->prev) before returning");
  VCANARY("push can return");
}
/* init: from ANY memory content the queue starts empty: head == tail == the caller's dummy node, unlinked, no value */
void h_init(void) {
  static mpmc_fifo_t X; static mpmc_fifo_node_t N0; memset(&X, (int)verif_u64(), sizeof(X)); memset(&N0, (int)verif_u64(), sizeof(N0));
  int r = mpmc_fifo_init(&X, &N0);
  VASSERT(r == 1 && X.head == &N0 && X.tail == &N0 && N0.prev == 0 && N0.next == 0 && N0.value == 0, "H: C13 init: empty queue on the caller's dummy node (unlinked, no value), whatever the memory held");
  VCANARY("init can return");
}
