/* C07 lemma layer: two arbitrary actors, all 2^64 state words. */
#include "verif_rt.h"
#include "C07/spec.h"
typedef struct { int mode; } actor_t;
static int inv2(rw_t s, unsigned TR, unsigned TW, actor_t a, actor_t b) {
  return rw_inv(s, TR, TW, a.mode) && rw_inv(s, TR, TW, b.mode) &&
         !(a.mode == WR && b.mode == WR) &&
         (!(a.mode == RD && b.mode == RD) || s.rc - TR >= 2) &&
         (!(a.mode == QR && b.mode == QR) || s.wr + TR >= 2) &&
         (!(a.mode == QW && b.mode == QW) || s.ww + TW >= 2);
}
/* one action of actor b (exactly the cases the step monitor in rwlock.c accepts); 0 = not enabled */
static int act(int which, rw_t* s, unsigned* TR, unsigned* TW, actor_t* b) {
  switch (which) {
    case 0: if (b->mode != IDLE || s->wl || s->ww || s->wr || s->rc >= FMAX) return 0; s->rc += 1; b->mode = RD; return 1;       /* RD_ACQ */
    case 1: if (b->mode != IDLE || !(s->wl || s->ww || s->wr) || s->wr >= FMAX) return 0; s->wr += 1; b->mode = QR; return 1;     /* RD_QUEUE */
    case 2: if (b->mode != IDLE || s->wl || s->rc || s->wr || s->ww) return 0; s->wl = 1; b->mode = WR; return 1;                  /* WR_ACQ */
    case 3: if (b->mode != IDLE || !(s->wl || s->rc || s->wr || s->ww) || s->ww >= FMAX) return 0; s->ww += 1; b->mode = QW; return 1; /* WR_QUEUE */
    case 4: { /* release by a holder: the three outcomes the monitor distinguishes */
      if (b->mode != RD && b->mode != WR) return 0;
      unsigned rc_after = (b->mode == RD) ? s->rc - 1 : s->rc;
      int last = (b->mode == WR) || rc_after == 0;
      if (last && s->ww > 0) { s->wl = 1; s->rc = 0; s->ww -= 1; *TW = 1; }
      else if (last && s->wr > 0) { s->wl = 0; s->rc = s->wr; s->wr = 0; *TR += s->rc; }
      else { s->wl = 0; s->rc = rc_after; }
      b->mode = IDLE; return 1;
    }
    case 5: if (b->mode != QR || *TR < 1) return 0; *TR -= 1; b->mode = RD; return 1;  /* RESUME_R */
    case 6: if (b->mode != QW || *TW != 1) return 0; *TW = 0; b->mode = WR; return 1;  /* RESUME_W */
  }
  return 0;
}
#define ANY rw_t s = rw_dec(verif_u64()); unsigned TR = verif_u32(), TW = verif_u32(); actor_t a, b; a.mode = verif_int(); b.mode = verif_int();

void lemma_layout(void) {
  uint64_t w = verif_u64();
  rw_t s = rw_dec(w);
  VASSERT(s.wl == (w & 1) && s.rc == ((w >> 1) & 0x1FFFFF) && s.wr == ((w >> 22) & 0x1FFFFF) && s.ww == ((w >> 43) & 0x1FFFFF),
          "L: A4 bit-field layout of the state word = shift/mask layout");
  VCANARY("layout reachable");
}
void lemma_L1_actions_preserve_inv(void) {
  ANY
  VASSUME(inv2(s, TR, TW, a, b));
  int w = (int)verif_pick(7);
  VASSUME(act(w, &s, &TR, &TW, &b));
  VASSERT(inv2(s, TR, TW, a, b), "L: L1 every action preserves INV (two arbitrary actors)");
  VCANARY("L1 premises satisfiable");
}
void lemma_L2_guarantee_inside_rely(void) {
  ANY
  VASSUME(inv2(s, TR, TW, a, b));
  rw_t s0 = s; unsigned TR0 = TR, TW0 = TW;
  int w = (int)verif_pick(7);
  VASSUME(act(w, &s, &TR, &TW, &b));
  VASSERT(rw_rely(a.mode, s0, TR0, TW0, s, TR, TW), "L: L2 every action of another fiber is inside my rely");
  VCANARY("L2 premises satisfiable");
}
void lemma_L4_writer_exclusive_readers_shared(void) {
  ANY
  VASSUME(inv2(s, TR, TW, a, b));
  VASSERT(!(a.mode == WR && (b.mode == WR || b.mode == RD)), "L: L4 a writer holds alone: never with another writer or any reader");
  /* while a writer holds nobody acquires directly */
  if (a.mode == WR) { VASSERT(!act(0, &s, &TR, &TW, &b) && !act(2, &s, &TR, &TW, &b), "L: L4 no direct acquisition while a writer holds"); }
  /* a second reader may share when nobody waits */
  if (a.mode == RD && b.mode == IDLE && s.ww == 0 && s.wr == 0 && s.rc < FMAX) { VASSERT(act(0, &s, &TR, &TW, &b) == 1, "L: L4 readers share the lock"); }
  VCANARY("L4a premises satisfiable");
}
void lemma_L4_nobody_waits_on_free_lock(void) {
  ANY
  VASSUME(inv2(s, TR, TW, a, b));
  VASSERT(!(s.wl == 0 && s.rc == 0 && (a.mode == QR || a.mode == QW)), "L: L4 no fiber is queued on a lock nobody holds");
  VCANARY("L4b premises satisfiable");
}
void lemma_L4_release_admits_waiters(void) {
  /* a release by the last holder with waiters present leaves the lock held (in transit) by one writer or by all waiting readers */
  ANY
  VASSUME(inv2(s, TR, TW, a, b) && (b.mode == RD || b.mode == WR));
  rw_t o = s; unsigned TR0 = TR;
  int last = (b.mode == WR) || (o.rc == 1);
  VASSUME(act(4, &s, &TR, &TW, &b));
  if (last && o.ww > 0) { VASSERT(s.wl == 1 && TW == 1 && s.ww == o.ww - 1 && s.wr == o.wr, "L: L4 exactly one waiting writer is admitted"); }
  else if (last && o.wr > 0) { VASSERT(s.rc == o.wr && s.wr == 0 && TR == TR0 + o.wr, "L: L4 all currently waiting readers are admitted"); }
  VCANARY("L4c premises satisfiable");
}
