FNS = ['fiber_rwlock_rdlock', 'fiber_rwlock_wrlock', 'fiber_rwlock_tryrdlock', 'fiber_rwlock_trywrlock', 'fiber_rwlock_rdunlock', 'fiber_rwlock_wrunlock']
WEAVE = [dict(file='src/fiber_rwlock.c', fns=FNS, loops='loops.json')]
PARK = ['fiber_manager_get', 'fiber_manager_wait_in_mpsc_queue', 'fiber_manager_wake_from_mpsc_queue']
GROUPS = [dict(name=f.replace('fiber_rwlock_', ''), tu='rwlock.c', harness='h_' + f.replace('fiber_rwlock_', ''), mode='D', enforce=f,
               replace=PARK, functions=[f]) for f in FNS] + [
    dict(name='init', tu='rwlock.c', harness='h_init', mode='H', functions=['fiber_rwlock_init'], unwind=3, exact_unwind=True, cbmc_flags=['--no-malloc-may-fail']),  # allocation failure: see the note at h_init
    dict(name='lemmas', tu='lemmas.c', kind='lemmas', harness='', no_native='pure lemma'),
]
ASSUMPTIONS = [
    'A5 fewer than 2^21-1 simultaneous readers / waiting readers / waiting writers (documented limit of the 21-bit fields)',
    'A4 bit-field layout of the packed state union as CBMC and gcc lay it out (checked by lemma_layout against shift/mask)',
    'park/unpark contract (DESIGN.md 4.2) TRUSTED here, enforced under C01',
]
# obligation groups of other properties' specifications that this property also rests on (its anchors name those files); see DESIGN.md 11.2
IMPORTS = [dict(prop='C01', groups=['wait_in_mpsc', 'wake_from_mpsc', 'maintenance', 'maintenance_migrating_unlock'])]
