/* C07 — refinement proofs of the six real rwlock functions (woven copy of /repo/src/fiber_rwlock.c). */
#include "verif_rt.h"
#include "fiber_rwlock.h"
#include "fiber_manager.h"
#include "C07/spec.h"

typedef struct {
  unsigned TR, TW;
  int mode;
  uint64_t last;  /* state word at my last point */
  int acq;        /* direct acquisitions (RD_ACQ / WR_ACQ) by me in this call */
  int queued;     /* RD_QUEUE / WR_QUEUE by me */
  int released;   /* releasing CAS by me */
  int owed_q;     /* 0 none, 1 = I owe wake(write_waiters, 1), 2 = I owe wake(read_waiters, owed_n) */
  unsigned owed_n;
  int wakes, parks;
} ghost_t;

fiber_rwlock_t RW;
ghost_t G;
fiber_manager_t VM0;
#define CUR (RW.state.blob)
/* call-free invariant over the live word (for loop contracts) */
#define LIVE_INV RW_INV(RW.state.state.write_locked, RW.state.state.reader_count, RW.state.state.waiting_readers, \
                        RW.state.state.waiting_writers, G.TR, G.TW, G.mode)
#define FRAME0 (G.acq == 0 && G.queued == 0 && G.released == 0 && G.owed_q == 0 && G.owed_n == 0 && G.wakes == 0 && G.parks == 0)

#include "src/fiber_rwlock.c" /* woven real code */

static void spec_snap(void) { G.last = CUR; }

static void spec_step(int site) {
  if (CUR == G.last) return;
  rw_t o = rw_dec(G.last), n = rw_dec(CUR);
  /* capacity assumption A5: the 21-bit fields never reach their maximum (so +1 never wraps inside a field) */
  VASSUME(o.rc < FMAX && o.wr < FMAX && o.ww < FMAX);
  if (G.mode == IDLE && n.wl == o.wl && n.rc == o.rc + 1 && n.wr == o.wr && n.ww == o.ww) {
    VASSERT(o.wl == 0 && o.ww == 0 && o.wr == 0, "G: a reader acquires directly only when no writer holds or waits and no reader waits");
    G.mode = RD; G.acq += 1; return;
  }
  if (G.mode == IDLE && n.wl == o.wl && n.rc == o.rc && n.wr == o.wr + 1 && n.ww == o.ww) {
    VASSERT(o.wl == 1 || o.ww > 0 || o.wr > 0, "G: a reader queues only behind a writer or behind waiting readers");
    G.mode = QR; G.queued += 1; return;
  }
  if (G.mode == IDLE && o.wl == 0 && n.wl == 1 && n.rc == o.rc && n.wr == o.wr && n.ww == o.ww) {
    VASSERT(G.last == 0, "G: a writer acquires directly only when the lock is completely free");
    G.mode = WR; G.acq += 1; return;
  }
  if (G.mode == IDLE && n.wl == o.wl && n.rc == o.rc && n.wr == o.wr && n.ww == o.ww + 1) {
    VASSERT(G.last != 0, "G: a writer queues only when the lock is held or somebody waits");
    G.mode = QW; G.queued += 1; return;
  }
  if (G.mode == RD || G.mode == WR) {
    /* my releasing CAS: after removing my hold, what happens to the waiters? */
    unsigned rc_after = (G.mode == RD) ? o.rc - 1 : o.rc;
    int last_holder = (G.mode == WR) || (rc_after == 0);
    G.released += 1;
    if (last_holder && o.ww > 0) { /* must admit exactly one waiting writer */
      VASSERT(n.wl == 1 && n.rc == 0 && n.ww == o.ww - 1 && n.wr == o.wr, "G: release with waiting writers grants exactly one writer (write_locked=1, waiting_writers-1)");
      G.TW = 1; G.owed_q = 1; G.owed_n = 1; G.mode = IDLE; return;
    }
    if (last_holder && o.wr > 0) { /* must admit all currently waiting readers */
      VASSERT(n.wl == 0 && n.rc == o.wr && n.wr == 0 && n.ww == 0, "G: release with waiting readers (and no writer) grants all of them (reader_count=waiting_readers, waiting_readers=0)");
      G.TR += n.rc; G.owed_q = 2; G.owed_n = n.rc; G.mode = IDLE; return;
    }
    VASSERT(n.wl == 0 && n.rc == rc_after && n.wr == o.wr && n.ww == o.ww, "G: plain release removes exactly my hold");
    G.mode = IDLE; return;
  }
  VASSERT(0, "G: my write to the state word is one of the declared actions");
}

static void havoc_env(void) {
  uint64_t b = verif_u64();
  unsigned TR2 = verif_u32(), TW2 = verif_u32();
  VASSUME(rw_rely(G.mode, rw_dec(CUR), G.TR, G.TW, rw_dec(b), TR2, TW2));
  CUR = b; G.TR = TR2; G.TW = TW2;
}
static void spec_env(int site) { havoc_env(); }
static void spec_read(int site, void* addr) {}
#include "verif_point.inc"

static int inv_now(void) { return rw_inv(rw_dec(CUR), G.TR, G.TW, G.mode) && G.last == CUR; }
static int PRE_mode(int m) { return G.mode == m && FRAME0 && inv_now(); }
static int nothing_owed(void) { return G.owed_q == 0 && G.owed_n == 0; }
/* rdlock/wrlock: end up holding; either acquired directly, or queued and parked exactly once */
static int POST_lock(int ret, int held) {
  return ret == FIBER_SUCCESS && G.mode == held && inv_now() && G.acq + G.queued == 1 && G.acq >= 0 && G.queued >= 0 && G.parks == G.queued &&
         G.released == 0 && nothing_owed() && G.wakes == 0;
}
/* try*: never park, never queue; SUCCESS only by the direct-acquire action, ERROR without touching the word */
static int POST_try(int ret, int held) {
  if (G.parks != 0 || G.queued != 0 || G.released != 0 || !nothing_owed() || G.wakes != 0 || !inv_now()) return 0;
  if (ret == FIBER_SUCCESS) return G.mode == held && G.acq == 1;
  return ret == FIBER_ERROR && G.mode == IDLE && G.acq == 0;
}
/* unlock: one releasing CAS; whatever it granted is woken by exactly one wake call with exactly that count */
static int POST_unlock(int ret) {
  return ret == FIBER_SUCCESS && G.mode == IDLE && inv_now() && G.released == 1 && nothing_owed() && G.wakes >= 0 && G.wakes <= 1 &&
         G.acq == 0 && G.queued == 0 && G.parks == 0;
}
static int same_counts(ghost_t o) { return G.acq == o.acq && G.queued == o.queued && G.released == o.released; }
static int PRE_park(fiber_manager_t* m, mpsc_fifo_t* q) {
  return m == &VM0 && ((G.mode == QR && q == &RW.read_waiters) || (G.mode == QW && q == &RW.write_waiters));
}
static int POST_park(ghost_t o) {
  return G.mode == (o.mode == QR ? RD : WR) && inv_now() && same_counts(o) && G.parks == o.parks + 1 && G.wakes == o.wakes &&
         G.owed_q == o.owed_q && G.owed_n == o.owed_n;
}
static int PRE_wake(fiber_manager_t* m, mpsc_fifo_t* q, int count) {
  return m == &VM0 && count > 0 && (unsigned)count == G.owed_n &&
         ((G.owed_q == 1 && q == &RW.write_waiters) || (G.owed_q == 2 && q == &RW.read_waiters));
}
static int POST_wake(ghost_t o, int count, int ret) {
  return ret == count && G.mode == o.mode && inv_now() && same_counts(o) && G.parks == o.parks && G.wakes == o.wakes + 1 && nothing_owed();
}

#if defined(VERIF_MODE_D)
#define RWC(fn, pre, post) int fn(fiber_rwlock_t* rwlock) __CPROVER_requires(rwlock == &RW && (pre)) \
  __CPROVER_ensures(post) __CPROVER_assigns(RW.state, G);
RWC(fiber_rwlock_rdlock, PRE_mode(IDLE), POST_lock(__CPROVER_return_value, RD))
RWC(fiber_rwlock_wrlock, PRE_mode(IDLE), POST_lock(__CPROVER_return_value, WR))
RWC(fiber_rwlock_tryrdlock, PRE_mode(IDLE), POST_try(__CPROVER_return_value, RD))
RWC(fiber_rwlock_trywrlock, PRE_mode(IDLE), POST_try(__CPROVER_return_value, WR))
RWC(fiber_rwlock_rdunlock, PRE_mode(RD), POST_unlock(__CPROVER_return_value))
RWC(fiber_rwlock_wrunlock, PRE_mode(WR), POST_unlock(__CPROVER_return_value))
fiber_manager_t* fiber_manager_get(void) __CPROVER_ensures(__CPROVER_return_value == &VM0) __CPROVER_assigns();
void fiber_manager_wait_in_mpsc_queue(fiber_manager_t* manager, mpsc_fifo_t* fifo)
  __CPROVER_requires(PRE_park(manager, fifo)) __CPROVER_ensures(POST_park(__CPROVER_old(G))) __CPROVER_assigns(RW.state, G);
int fiber_manager_wake_from_mpsc_queue(fiber_manager_t* manager, mpsc_fifo_t* fifo, int count)
  __CPROVER_requires(PRE_wake(manager, fifo, count)) __CPROVER_ensures(POST_wake(__CPROVER_old(G), count, __CPROVER_return_value))
  __CPROVER_assigns(RW.state, G);
#else
fiber_manager_t* fiber_manager_get(void) { return &VM0; }
void fiber_manager_wait_in_mpsc_queue(fiber_manager_t* manager, mpsc_fifo_t* fifo) {
  VASSERT(PRE_park(manager, fifo), "C: park only after queueing, on the matching wait list");
  ghost_t o = G;
  G.mode = (o.mode == QR ? RD : WR); G.parks += 1; havoc_env(); spec_snap();
  VASSUME(POST_park(o));
}
int fiber_manager_wake_from_mpsc_queue(fiber_manager_t* manager, mpsc_fifo_t* fifo, int count) {
  VASSERT(PRE_wake(manager, fifo, count), "C: exactly one wake, on the list and with the count the releasing CAS granted");
  ghost_t o = G;
  G.owed_q = 0; G.owed_n = 0; G.wakes += 1; havoc_env(); spec_snap();
  VASSUME(POST_wake(o, count, count));
  return count;
}
#endif

static void init_any(void) {
  CUR = verif_u64(); G.TR = verif_u32(); G.TW = verif_u32(); G.mode = verif_int();
  G.acq = G.queued = G.released = G.owed_q = G.wakes = G.parks = 0; G.owed_n = 0;
  spec_snap();
}
#define HARN(name, fn, pre, post, text) void name(void) { init_any(); VASSUME(pre); int r = fn(&RW); VASSERT(post, "H: " text); VCANARY(#fn " can return"); }
HARN(h_rdlock, fiber_rwlock_rdlock, PRE_mode(IDLE), POST_lock(r, RD), "rdlock returns holding a read share; direct only if legal, else queued and parked once")
HARN(h_wrlock, fiber_rwlock_wrlock, PRE_mode(IDLE), POST_lock(r, WR), "wrlock returns as the only holder; direct only on a free lock, else queued and parked once")
HARN(h_tryrdlock, fiber_rwlock_tryrdlock, PRE_mode(IDLE), POST_try(r, RD), "tryrdlock never waits; succeeds only by a legal direct acquisition")
HARN(h_trywrlock, fiber_rwlock_trywrlock, PRE_mode(IDLE), POST_try(r, WR), "trywrlock never waits; succeeds only on a completely free lock")
HARN(h_rdunlock, fiber_rwlock_rdunlock, PRE_mode(RD), POST_unlock(r), "rdunlock: one release; grants exactly one writer or all waiting readers and wakes exactly those")
HARN(h_wrunlock, fiber_rwlock_wrunlock, PRE_mode(WR), POST_unlock(r), "wrunlock: one release; grants exactly one writer or all waiting readers and wakes exactly those")
/* init: from ANY memory content (a lock placed in recycled memory) the initialiser establishes the state every proof above starts from */
/* Allocation failure is NOT explored here (--no-malloc-may-fail): when the first queue's allocation fails, fiber_rwlock_init calls
 * mpsc_fifo_destroy on the second queue, which it never initialised - in dirty memory that walks and frees a garbage list.  No listed property
 * speaks about a failed init, so this is recorded as an observation in DESIGN.md 11.5, not as a finding of C07. */
void h_init(void) {
  static fiber_rwlock_t X; memset(&X, (int)verif_u64(), sizeof(X));
  int r = fiber_rwlock_init(&X);
  if (r == FIBER_SUCCESS) VASSERT(X.state.blob == 0 && (X.write_waiters.head != 0 && X.write_waiters.head == X.write_waiters.tail && X.write_waiters.head->next == 0) && (X.read_waiters.head != 0 && X.read_waiters.head == X.read_waiters.tail && X.read_waiters.head->next == 0),
                                  "H: C07 init: nobody holds the lock and NOBODY IS COUNTED AS WAITING (the whole state word is 0), both wait queues empty and usable, whatever the memory held");
  else VASSERT(0, "H: C07 init succeeds when its allocations do");
  VCANARY("init can return");
}
