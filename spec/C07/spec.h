/* C07 — read/write lock.  Shared predicates for refinement (rwlock.c) and lemmas (lemmas.c).
 *
 * Shared   the 64-bit state word = (wl write_locked:1, rc reader_count:21, wr waiting_readers:21, ww waiting_writers:21)
 * Ghost    TR readers granted by a releasing CAS that have not resumed yet (they are already counted in rc)
 *          TW ∈ {0,1} a writer granted (wl already 1) that has not resumed yet
 *          me ∈ {IDLE, R, W, QR, QW}
 * INV      wl ∈ {0,1}; ¬(wl ∧ rc > 0); free (wl = 0 ∧ rc = 0) ⇒ wr = 0 ∧ ww = 0   (nobody waits on a free lock)
 *          TR ≤ rc; TW ≤ wl;  me = R ⇒ wl = 0 ∧ rc − TR ≥ 1;  me = W ⇒ wl = 1 ∧ rc = 0 ∧ TW = 0
 *          me = QR ⇒ wr + TR ≥ 1;  me = QW ⇒ ww + TW ≥ 1
 * Actions  (one CAS each)  RD_ACQ, RD_QUEUE, WR_ACQ, WR_QUEUE, UNLOCK_PLAIN, GRANT_W (exactly one waiting writer),
 *          GRANT_R (all currently waiting readers), and the ghost-only RESUME_R / RESUME_W on return from the park.
 * RELY     R: wl stays 0 and my share of rc stays.  W: wl = 1, rc = 0, TW = 0 stay.  QR/QW: my announcement or grant stays.
 */
#ifndef C07_SPEC_H
#define C07_SPEC_H
#include "verif_rt.h"
#include "fiber_rwlock.h"
#define IDLE 0
#define RD 1
#define WR 2
#define QR 3
#define QW 4
#define FMAX 0x1FFFFFu /* 21-bit fields; capacity assumption A5: never reached */

typedef struct { unsigned wl, rc, wr, ww; } rw_t;
static rw_t rw_dec(uint64_t b) {
  fiber_rwlock_state_t s; s.blob = b;
  rw_t r; r.wl = s.state.write_locked; r.rc = s.state.reader_count; r.wr = s.state.waiting_readers; r.ww = s.state.waiting_writers;
  return r;
}
#define RW_INV(wl, rc, wr, ww, TR, TW, mode)                                                     \
  (((wl) == 0 || (wl) == 1) && !((wl) == 1 && (rc) > 0) && (!((wl) == 0 && (rc) == 0) || ((wr) == 0 && (ww) == 0)) && \
   (TR) <= (rc) && (TW) <= (wl) && (rc) <= FMAX && (wr) <= FMAX && (ww) <= FMAX &&              \
   ((mode) >= IDLE && (mode) <= QW) &&                                                           \
   ((mode) != RD || ((wl) == 0 && (rc) - (TR) >= 1)) && ((mode) != WR || ((wl) == 1 && (rc) == 0 && (TW) == 0)) && \
   ((mode) != QR || (wr) + (TR) >= 1) && ((mode) != QW || (ww) + (TW) >= 1))
static int rw_inv(rw_t s, unsigned TR, unsigned TW, int mode) { return RW_INV(s.wl, s.rc, s.wr, s.ww, TR, TW, mode); }
static int rw_rely(int mode, rw_t s, unsigned TR, unsigned TW, rw_t s2, unsigned TR2, unsigned TW2) {
  /* everything the holder/waiter relies on is already an invariant clause indexed by my mode */
  return rw_inv(s2, TR2, TW2, mode);
}
#endif
