/* C15 — SPSC FIFO (also the building block of the relaxed MPSC queue).  Derived from mpsc.c: same roles and obligations;
 * the single producer owns the tail, so no other producer interferes (the consumer still does).
 * --- text of mpsc.c follows ---
 * C15 — MPSC FIFO.  Refinement of the real spsc_fifo_push / spsc_fifo_trypop (woven /repo/include/mpsc_fifo.h) with a pool of real
 * node objects in their roles and ghost sequence numbers.
 *
 * Abstract view  the queue is the chain stub -> e(hs+1) -> e(hs+2) ... -> tail; an element gets its sequence number when its pusher
 *                swaps the tail (ENQ), and becomes reachable when the pusher of that number stores the predecessor's `next` (LINK).
 * Consumer role  pool: STUB (f->head), N1 (element hs+1), N2 (element hs+2).  Producers (interference) may LINK NX(STUB) NULL -> &N1 and
 *                NX(N1) NULL -> &N2, each once, and move f->tail; they never touch f->head, a linked node's data, or unlink anything.
 *                Guarantee: the consumer writes only f->head (to the LINKED successor) and the data field of the node it takes out.
 * Producer role  pool: NEW (my node), PT (the node my swap returned), OTHER (any other node).  Interference: other producers swap the
 *                tail; once NEW is the tail somebody may LINK NX(NEW); the consumer cannot pass PT while PT.next is NULL, so PT stays
 *                in the queue until I link it.  Guarantee: terminate NEW before the swap, one swap, one LINK of exactly PT, nothing else.
 * Contract (from the statement)  trypop returns the old stub carrying the data of element hs+1 (each number exactly once, in order), or
 *                NULL having seen stub.next == NULL (empty, or the push of hs+1 still in flight) and changed nothing;
 *                push performs ENQ then LINK exactly once each.
 */
#include "verif_rt.h"
#include "spsc_fifo.h" /* woven real code (found first on the include path) */
#define CONSUMER 0
#define PRODUCER 1
typedef struct {
  int role;
  /* consumer */
  void* val1;            /* value pushed for element hs+1 (defined once N1 is linked) */
  int pops; int saw_null; int saw_linked;
  /* producer */
  int terminated, enq, linked; spsc_node_t* pt; void* myval;
  /* snapshot */
  spsc_node_t* l_head; spsc_node_t* l_tail; spsc_node_t* l_snext; spsc_node_t* l_n1next; spsc_node_t* l_newnext;
  spsc_node_t* l_othnext; void* l_sdata; void* l_n1data; void* l_newdata;
} ghost_t;
ghost_t G;
spsc_fifo_t F;
spsc_node_t STUB, N1, N2, NEW, OTHER, LATER; /* LATER: any node pushed after mine */
#define TAILP (*(spsc_node_t**)&F.tail)
#define NX(n) (*(spsc_node_t**)&(n).next)
#define HEADP (*(spsc_node_t**)&F.head)
static void spec_snap(void) {
  G.l_head = HEADP; G.l_tail = TAILP; G.l_snext = NX(STUB); G.l_n1next = NX(N1); G.l_newnext = NX(NEW); G.l_othnext = NX(OTHER);
  G.l_sdata = STUB.data; G.l_n1data = N1.data; G.l_newdata = NEW.data;
}
static int cons_inv(void) { /* shape the consumer relies on */
  return (NX(STUB) == 0 || NX(STUB) == &N1) && (NX(N1) == 0 || NX(N1) == &N2) && (NX(STUB) != &N1 || N1.data == G.val1) &&
         (G.pops == 0 ? HEADP == &STUB : HEADP == &N1);
}
static void spec_step(int site) {
  if (G.role == CONSUMER) {
    VASSERT(NX(STUB) == G.l_snext && NX(N1) == G.l_n1next && TAILP == G.l_tail && N1.data == G.l_n1data, "G: the consumer never writes next pointers, the tail, or a queued element's data");
    if (HEADP != G.l_head) {
      VASSERT(G.pops == 0 && G.l_head == &STUB && HEADP == &N1 && G.l_snext == &N1, "G: head advances only to the LINKED successor of the stub, once");
      VASSERT(G.saw_linked, "G: head advances only after the consumer itself saw the link");
      G.pops = 1;
    }
    if (STUB.data != G.l_sdata) VASSERT(G.pops == 1 && STUB.data == G.val1, "G: the consumer writes data only into the node it has taken out, and only the value of the next element");
  } else {
    VASSERT(HEADP == G.l_head, "G: a producer never writes head");
    VASSERT(NEW.data == G.l_newdata, "G: push does not alter the caller's data");
    if (NX(NEW) != G.l_newnext) {
      VASSERT(!G.enq && NX(NEW) == 0, "G: the only write to my node's next is the termination before the swap");
      G.terminated = 1;
    }
    /* single producer: the tail is private to it, so the order of "store tail" and "link" does not matter to anybody else;
       what matters to the consumer is that the node is terminated before the link makes it reachable */
    if (TAILP != G.l_tail) {
      VASSERT(!G.enq && TAILP == &NEW, "G: the tail is set to my node, once");
      G.enq = 1;
    }
    spsc_node_t* cand[2] = { &STUB, &OTHER };
    spsc_node_t* lastn[2] = { G.l_snext, G.l_othnext };
    for (int i = 0; i < 2; i++) if (NX(*cand[i]) != lastn[i]) {
      VASSERT(!G.linked && G.pt == cand[i] && lastn[i] == 0 && NX(*cand[i]) == &NEW, "G: LINK writes my node into the NULL next of exactly the previous tail, once");
      VASSERT(NX(NEW) == 0, "G: a node is terminated (next == NULL) before the link makes it reachable for the consumer");
      G.linked = 1;
    }
  }
}
static spsc_node_t* pick_node(void) { unsigned k = verif_pick(3); return k == 0 ? &STUB : k == 1 ? &OTHER : &N1; }
static void spec_env(int site) {
  if (G.role == CONSUMER) {
    if (NX(STUB) == 0 && verif_bool()) { N1.data = G.val1; NX(STUB) = &N1; }   /* the pusher of hs+1 links */
    if (NX(N1) == 0 && verif_bool()) NX(N1) = &N2;
    TAILP = pick_node();
  } else {
    /* other producers swap the tail and link behind whatever was the tail */
    /* INV: the tail node's next is NULL (a next is written only by the pusher that swapped that node out of the tail position) */
    /* single producer: nobody else touches the tail or links anything */
    /* the consumer may move head but never past a node whose next is NULL */
  }
}
static void spec_read(int site, void* addr) {
  if (G.role == CONSUMER && addr == (void*)&NX(STUB)) { if (NX(STUB) == 0) G.saw_null = 1; else G.saw_linked = 1; }
}
#include "verif_point.inc"

static void init_cons(void) {
  G.role = CONSUMER; G.val1 = (void*)verif_u64(); G.pops = G.saw_null = G.saw_linked = 0;
  HEADP = &STUB; NX(STUB) = verif_bool() ? &N1 : 0; NX(N1) = verif_bool() ? &N2 : 0; NX(N2) = 0;
  STUB.data = (void*)verif_u64(); N1.data = NX(STUB) ? G.val1 : (void*)verif_u64(); N2.data = (void*)verif_u64();
  TAILP = pick_node(); spec_snap();
}
void h_trypop(void) {
  init_cons(); VASSUME(cons_inv());
  spsc_node_t* r = spsc_fifo_trypop(&F);
  verif_sync(-1);
  if (r == 0) VASSERT(G.pops == 0 && G.saw_null && HEADP == &STUB, "H: NULL only after seeing the stub's next NULL (empty or a push in flight), with nothing changed");
  else VASSERT(r == &STUB && G.pops == 1 && HEADP == &N1 && r->data == G.val1, "H: trypop returns the old stub carrying the data of the next element; head is the successor");
  VCANARY("trypop can return");
}
void h_push(void) {
  G.role = PRODUCER; G.terminated = G.enq = G.linked = 0;
  HEADP = &STUB; TAILP = verif_bool() ? &STUB : &OTHER; G.pt = TAILP; /* single producer: the previous tail is the tail at entry */ NX(STUB) = (TAILP == &STUB) ? 0 : &OTHER; NX(OTHER) = 0;
  NX(NEW) = (spsc_node_t*)pick_node(); if (verif_bool()) NX(NEW) = 0;   /* the caller's node arrives with any next */
  NEW.data = (void*)verif_u64(); G.myval = NEW.data; spec_snap();
  spsc_fifo_push(&F, &NEW);
  verif_sync(-1);
  VASSERT(G.enq == 1 && G.linked == 1 && NEW.data == G.myval, "H: push swaps the tail to its node once, then links it behind the node the swap returned, once");
  VCANARY("push can return");
}
/* init: from ANY memory content the queue starts empty: head == tail == one zeroed dummy node */
void h_init(void) {
  static spsc_fifo_t X; memset(&X, (int)verif_u64(), sizeof(X));
  int r = spsc_fifo_init(&X);
  if (r) VASSERT(X.head != 0 && X.head == X.tail && X.head->next == 0, "C15.spsc: init: empty queue (one dummy node, unlinked), whatever the memory held");
  else VASSERT(X.head == 0, "C15.spsc: a failed init leaves no node behind");
  VCANARY("spsc init can return");
}
