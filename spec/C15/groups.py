WEAVE = [dict(file='include/mpsc_fifo.h', parse='src/fiber_mutex.c', fns=['mpsc_fifo_push', 'mpsc_fifo_trypop']),
         dict(file='include/spsc_fifo.h', parse='test/test_spsc.c', fns=['spsc_fifo_push', 'spsc_fifo_trypop']),
         dict(file='include/mpsc_relaxed_fifo.h', parse='test/test_mpscr.c', fns=['mpscr_fifo_push', 'mpscr_fifo_trypop'])]
NQ = [1, 2, 3, 4]
NT = [5, 6, 7, 12]
GROUPS = [
    dict(name='mpsc_trypop', tu='mpsc.c', harness='h_trypop', mode='H', functions=['mpsc_fifo_trypop'], unwind=3, exact_unwind=True),
    dict(name='mpsc_push', tu='mpsc.c', harness='h_push', mode='H', functions=['mpsc_fifo_push'], unwind=3, exact_unwind=True),
    dict(name='spsc_trypop', tu='spsc.c', harness='h_trypop', mode='H', functions=['spsc_fifo_trypop'], unwind=3, exact_unwind=True),
    dict(name='spsc_push', tu='spsc.c', harness='h_push', mode='H', functions=['spsc_fifo_push'], unwind=3, exact_unwind=True),
    dict(name='mpsc_init', tu='mpsc.c', harness='h_init', mode='H', functions=['mpsc_fifo_init'], unwind=2, exact_unwind=True),
    dict(name='spsc_init', tu='spsc.c', harness='h_init', mode='H', functions=['spsc_fifo_init'], unwind=2, exact_unwind=True),
] + [
    dict(name='mpscr_create_n%d' % n, tu='mpscr.c', harness='h_create', mode='H', functions=['mpscr_fifo_create', 'spsc_fifo_init', 'spsc_fifo_destroy'], defs=['-DNPROD=%d' % n], unwind=n + 3,
         bounded=True, bound='%d producers' % n) for n in [1, 2, 3]
] + [
    dict(name='mpscr_trypop_n%d' % n, tu='mpscr.c', harness='h_trypop', mode='H', functions=['mpscr_fifo_trypop'], defs=['-DNPROD=%d' % n], unwind=n + 2,
         bounded=True, bound='%d producers (all 2^64 counter values; the scan loop is fully unwound)' % n, thorough_only=(n in NT), timeout=900, cbmc_flags=['--sat-solver', 'cadical']) for n in NQ + NT
] + [
    dict(name='mpscr_push_n%d' % n, tu='mpscr.c', harness='h_push', mode='H', functions=['mpscr_fifo_push'], defs=['-DNPROD=%d' % n], unwind=n + 2,
         bounded=True, bound='%d producers' % n, thorough_only=(n in NT)) for n in [3]
]
ASSUMPTIONS = ['single consumer (the caller of trypop holds the consumer token); single producer per SPSC queue',
               'SC; the release/acquire orders on tail/next are not checked semantically',
               'relaxed MPSC: producer count concrete per group (symbolic 64-bit modulo is beyond the SAT back ends): n in {1,2,3,4} quick, {5,6,7,12} thorough; labelled bounded']
