/* C15 — relaxed MPSC queue = array of SPSC queues.  mpscr_fifo_push / mpscr_fifo_trypop (woven /repo/include/mpsc_relaxed_fifo.h),
 * with spsc_fifo_push / spsc_fifo_trypop by their contracts (spsc.c).
 * Contract  push(producer p) pushes onto sub-queue p and nothing else.
 *           trypop tries the sub-queues counter, counter+1, ... (mod n) in turn, each at most once, advancing `counter` by the number
 *           tried; it returns the first item found; it returns NULL only after ALL n sub-queues reported empty — so an item of a
 *           completed push is never skipped (for the observed sub-queue Q: NULL => Q was tried).
 * The producer count is concrete per group (NPROD) because the proof needs counter % n for a symbolic 64-bit counter; with a concrete n
 * the scan loop is fully unwound (exact). */
#include "verif_rt.h"
#include <stdlib.h>
#include "spsc_fifo.h"
/* calls made by the relaxed queue go to the SPSC contracts below (the SPSC bodies themselves are proved in spsc.c) */
static spsc_node_t* stub_trypop(spsc_fifo_t* f);
static void stub_push(spsc_fifo_t* f, spsc_node_t* n);
#define spsc_fifo_trypop stub_trypop
#define spsc_fifo_push stub_push
#include "mpsc_relaxed_fifo.h" /* woven */
#undef spsc_fifo_trypop
#undef spsc_fifo_push
#ifndef NPROD
#define NPROD 3
#endif
static struct { mpscr_fifo_t hdr; spsc_fifo_t q[NPROD]; } MQ;
static int tried[NPROD]; static int tries; static int order_ok; static size_t expect_idx; static int found_at; static spsc_node_t ITEM, PUSHED;
static int pushes; static spsc_fifo_t* pushed_to;
static void spec_snap(void) {}
static void spec_step(int site) {}
static void spec_env(int site) {}
static void spec_read(int site, void* addr) {}
#include "verif_point.inc"
/* contract stubs for the SPSC operations */
static spsc_node_t* stub_trypop(spsc_fifo_t* f) {
  long k = f - &MQ.hdr.fifos[0];
  VASSERT(k >= 0 && k < NPROD, "C: trypop only on one of the n sub-queues");
  VASSERT(!tried[k], "C15.mpscr: a sub-queue is tried at most once per pop");
  if ((size_t)k != expect_idx) order_ok = 0;
  expect_idx = (expect_idx + 1) % NPROD;
  tried[k] = 1; tries++;
  if (verif_bool()) { found_at = (int)k; return &ITEM; }
  return 0;
}
static void stub_push(spsc_fifo_t* f, spsc_node_t* n) { pushes++; pushed_to = f; VASSERT(n == &PUSHED, "C: the caller's node is pushed"); }
void h_trypop(void) {
  MQ.hdr.num_producers = NPROD; MQ.hdr.counter = (size_t)verif_u64();
  size_t c0 = MQ.hdr.counter;
  VASSUME(c0 < 0xFFFFFFFFFFFFFF00ull); /* A6 */
  for (int i = 0; i < NPROD; i++) tried[i] = 0;
  tries = 0; order_ok = 1; expect_idx = c0 % NPROD; found_at = -1;
  spsc_node_t* r = mpscr_fifo_trypop(&MQ.hdr);
  VASSERT(order_ok, "C15.mpscr: sub-queues are tried round-robin starting at counter % n");
  VASSERT(MQ.hdr.counter == c0 + (size_t)tries, "C15.mpscr: the counter advances by the number of sub-queues tried");
  if (r == 0) { for (int i = 0; i < NPROD; i++) VASSERT(tried[i], "C15.mpscr: empty is reported only after every sub-queue was tried (a completed push is never skipped)"); }
  else VASSERT(r == &ITEM && found_at >= 0 && tries >= 1, "C15.mpscr: the item found first is returned");
  VCANARY("mpscr trypop can return");
}
void h_push(void) {
  MQ.hdr.num_producers = NPROD; size_t p = (size_t)verif_pick(NPROD); pushes = 0; pushed_to = 0;
  mpscr_fifo_push(&MQ.hdr, p, &PUSHED);
  VASSERT(pushes == 1 && pushed_to == &MQ.hdr.fifos[p], "C15.mpscr: push goes to the producer's own sub-queue, once");
  VCANARY("mpscr push can return");
}
/* create: every producer's sub-queue is initialised (in whatever memory malloc returned) before the queue is handed out - also when asserts are
 * compiled out (the proofs run with -DNDEBUG, like a Release build: an initialisation placed inside assert() disappears) */
void h_create(void) {
  mpscr_fifo_t* q = mpscr_fifo_create(NPROD);
  if (q) {
    VASSERT(q->counter == 0 && q->num_producers == NPROD, "C15.mpscr: create: counter 0, the requested number of producers");
    for (int i = 0; i < NPROD; i++) {
      VASSERT(q->fifos[i].head != 0 && q->fifos[i].head == q->fifos[i].tail && q->fifos[i].head->next == 0, "C15.mpscr: create: every producer's sub-queue is initialised and empty");
      for (int j = 0; j < i; j++) VASSERT(q->fifos[i].head != q->fifos[j].head, "C15.mpscr: create: sub-queues do not share their dummy node");
    }
  }
  VCANARY("mpscr create can return");
}
