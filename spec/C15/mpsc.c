/* C15 — MPSC FIFO.  Refinement of the real mpsc_fifo_push / mpsc_fifo_trypop (woven /repo/include/mpsc_fifo.h) with a pool of real
 * node objects in their roles and ghost sequence numbers.
 *
 * Abstract view  the queue is the chain stub -> e(hs+1) -> e(hs+2) ... -> tail; an element gets its sequence number when its pusher
 *                swaps the tail (ENQ), and becomes reachable when the pusher of that number stores the predecessor's `next` (LINK).
 * Consumer role  pool: STUB (f->head), N1 (element hs+1), N2 (element hs+2).  Producers (interference) may LINK STUB.next NULL -> &N1 and
 *                N1.next NULL -> &N2, each once, and move f->tail; they never touch f->head, a linked node's data, or unlink anything.
 *                Guarantee: the consumer writes only f->head (to the LINKED successor) and the data field of the node it takes out.
 * Producer role  pool: NEW (my node), PT (the node my swap returned), OTHER (any other node).  Interference: other producers swap the
 *                tail; once NEW is the tail somebody may LINK NEW.next; the consumer cannot pass PT while PT.next is NULL, so PT stays
 *                in the queue until I link it.  Guarantee: terminate NEW before the swap, one swap, one LINK of exactly PT, nothing else.
 * Contract (from the statement)  trypop returns the old stub carrying the data of element hs+1 (each number exactly once, in order), or
 *                NULL having seen stub.next == NULL (empty, or the push of hs+1 still in flight) and changed nothing;
 *                push performs ENQ then LINK exactly once each.
 */
#include "verif_rt.h"
#include "mpsc_fifo.h" /* woven real code (found first on the include path) */
#define CONSUMER 0
#define PRODUCER 1
typedef struct {
  int role;
  /* consumer */
  void* val1;            /* value pushed for element hs+1 (defined once N1 is linked) */
  int pops; int saw_null; int saw_linked;
  /* producer */
  int terminated, enq, linked; mpsc_fifo_node_t* pt; void* myval;
  /* snapshot */
  mpsc_fifo_node_t* l_head; mpsc_fifo_node_t* l_tail; mpsc_fifo_node_t* l_snext; mpsc_fifo_node_t* l_n1next; mpsc_fifo_node_t* l_newnext;
  mpsc_fifo_node_t* l_othnext; void* l_sdata; void* l_n1data; void* l_newdata;
} ghost_t;
ghost_t G;
mpsc_fifo_t F;
mpsc_fifo_node_t STUB, N1, N2, NEW, OTHER, LATER; /* LATER: any node pushed after mine */
#define TAILP (*(mpsc_fifo_node_t**)&F.tail)
static void spec_snap(void) {
  G.l_head = F.head; G.l_tail = TAILP; G.l_snext = STUB.next; G.l_n1next = N1.next; G.l_newnext = NEW.next; G.l_othnext = OTHER.next;
  G.l_sdata = STUB.data; G.l_n1data = N1.data; G.l_newdata = NEW.data;
}
static int cons_inv(void) { /* shape the consumer relies on */
  return (STUB.next == 0 || STUB.next == &N1) && (N1.next == 0 || N1.next == &N2) && (STUB.next != &N1 || N1.data == G.val1) &&
         (G.pops == 0 ? F.head == &STUB : F.head == &N1);
}
static void spec_step(int site) {
  if (G.role == CONSUMER) {
    VASSERT(STUB.next == G.l_snext && N1.next == G.l_n1next && TAILP == G.l_tail && N1.data == G.l_n1data, "G: the consumer never writes next pointers, the tail, or a queued element's data");
    if (F.head != G.l_head) {
      VASSERT(G.pops == 0 && G.l_head == &STUB && F.head == &N1 && G.l_snext == &N1, "G: head advances only to the LINKED successor of the stub, once");
      VASSERT(G.saw_linked, "G: head advances only after the consumer itself saw the link");
      G.pops = 1;
    }
    if (STUB.data != G.l_sdata) VASSERT(G.pops == 1 && STUB.data == G.val1, "G: the consumer writes data only into the node it has taken out, and only the value of the next element");
  } else {
    VASSERT(F.head == G.l_head, "G: a producer never writes head");
    VASSERT(NEW.data == G.l_newdata, "G: push does not alter the caller's data");
    if (NEW.next != G.l_newnext) {
      VASSERT(!G.enq && NEW.next == 0, "G: the only write to my node's next is the termination before the swap");
      G.terminated = 1;
    }
    if (TAILP != G.l_tail) {
      VASSERT(!G.enq && TAILP == &NEW, "G: the tail is swapped to my node, once");
      VASSERT(NEW.next == 0, "G: a node is terminated (next == NULL) before it becomes the tail");
      G.enq = 1; G.pt = G.l_tail;
    }
    /* LINK: exactly the node my swap returned, from NULL to my node, after the swap */
    mpsc_fifo_node_t* cand[2] = { &STUB, &OTHER };
    mpsc_fifo_node_t* lastn[2] = { G.l_snext, G.l_othnext };
    for (int i = 0; i < 2; i++) if (cand[i]->next != lastn[i]) {
      VASSERT(G.enq && !G.linked && G.pt == cand[i] && lastn[i] == 0 && cand[i]->next == &NEW, "G: LINK writes my node into the NULL next of exactly the node my swap returned, after the swap, once");
      G.linked = 1;
    }
  }
}
static mpsc_fifo_node_t* pick_node(void) { unsigned k = verif_pick(3); return k == 0 ? &STUB : k == 1 ? &OTHER : &N1; }
static void spec_env(int site) {
  if (G.role == CONSUMER) {
    if (STUB.next == 0 && verif_bool()) { N1.data = G.val1; STUB.next = &N1; }   /* the pusher of hs+1 links */
    if (N1.next == 0 && verif_bool()) N1.next = &N2;
    TAILP = pick_node();
  } else {
    /* other producers swap the tail and link behind whatever was the tail */
    /* INV: the tail node's next is NULL (a next is written only by the pusher that swapped that node out of the tail position) */
    if (!G.enq) { if (TAILP == &STUB && verif_bool()) { TAILP = &OTHER; if (verif_bool()) STUB.next = &OTHER; } }
    else { if (verif_bool()) { if (NEW.next == 0 && TAILP == &NEW && verif_bool()) NEW.next = &LATER; TAILP = &LATER; } }
    /* the consumer may move head but never past a node whose next is NULL */
  }
}
static void spec_read(int site, void* addr) {
  if (G.role == CONSUMER && addr == (void*)&STUB.next) { if (STUB.next == 0) G.saw_null = 1; else G.saw_linked = 1; }
}
#include "verif_point.inc"

static void init_cons(void) {
  G.role = CONSUMER; G.val1 = (void*)verif_u64(); G.pops = G.saw_null = G.saw_linked = 0;
  F.head = &STUB; STUB.next = verif_bool() ? &N1 : 0; N1.next = verif_bool() ? &N2 : 0; N2.next = 0;
  STUB.data = (void*)verif_u64(); N1.data = STUB.next ? G.val1 : (void*)verif_u64(); N2.data = (void*)verif_u64();
  TAILP = pick_node(); spec_snap();
}
void h_trypop(void) {
  init_cons(); VASSUME(cons_inv());
  mpsc_fifo_node_t* r = mpsc_fifo_trypop(&F);
  verif_sync(-1);
  if (r == 0) VASSERT(G.pops == 0 && G.saw_null && F.head == &STUB, "H: NULL only after seeing the stub's next NULL (empty or a push in flight), with nothing changed");
  else VASSERT(r == &STUB && G.pops == 1 && F.head == &N1 && r->data == G.val1, "H: trypop returns the old stub carrying the data of the next element; head is the successor");
  VCANARY("trypop can return");
}
void h_push(void) {
  G.role = PRODUCER; G.terminated = G.enq = G.linked = 0; G.pt = 0;
  F.head = &STUB; TAILP = verif_bool() ? &STUB : &OTHER; STUB.next = (TAILP == &STUB) ? 0 : &OTHER; OTHER.next = 0;
  NEW.next = (mpsc_fifo_node_t*)pick_node(); if (verif_bool()) NEW.next = 0;   /* the caller's node arrives with any next */
  NEW.data = (void*)verif_u64(); G.myval = NEW.data; spec_snap();
  mpsc_fifo_push(&F, &NEW);
  verif_sync(-1);
  VASSERT(G.enq == 1 && G.linked == 1 && NEW.data == G.myval, "H: push swaps the tail to its node once, then links it behind the node the swap returned, once");
  VCANARY("push can return");
}
/* init: from ANY memory content the queue starts empty: head == tail == one zeroed dummy node */
void h_init(void) {
  static mpsc_fifo_t X; memset(&X, (int)verif_u64(), sizeof(X));
  int r = mpsc_fifo_init(&X);
  if (r) VASSERT(X.head != 0 && X.head == X.tail && X.head->next == 0, "C15.mpsc: init: empty queue (one dummy node, unlinked), whatever the memory held");
  else VASSERT(X.head == 0, "C15.mpsc: a failed init leaves no node behind");
  VCANARY("mpsc init can return");
}
