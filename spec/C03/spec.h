/* C03 — fiber mutex.  Shared predicates for the refinement proofs (mutex.c) and the lemma layer (lemmas.c).
 *
 * Shared     c = mutex->counter (int).
 * Ghost      own ∈ {0,1}   the mutex is owned (an owner in transit counts as owner)
 *            W ≥ 0          announced waiters not yet designated by a hand-off
 *            X ∈ {0,1}      a hand-off happened and the designated waiter has not resumed yet
 *            me ∈ {IDLE, ANN (announced, will park / is parked), HOLD}
 * INV        c = 1 − own − W;  own = 0 ⇒ W = 0 (nobody waits on a free mutex);  X = 1 ⇒ own = 1
 *            me = HOLD ⇒ own = 1 ∧ X = 0;   me = ANN ⇒ W + X ≥ 1
 * Actions    FAST      c: 1 → 0                 own := 1, actor → HOLD            (lock, trylock)
 *            ANNOUNCE  c: v ≤ 0 → v − 1          W++, actor → ANN                  (lock)
 *            FREE      c: 0 → 1, actor HOLD      own := 0, actor → IDLE            (unlock)
 *            HANDOFF   c: v < 0 → v + 1, HOLD    W−−, X := 1, actor → IDLE, owes exactly one wake(1)
 *            RESUME    actor ANN, X = 1          X := 0, actor → HOLD              (return from the park)
 * RELY(me)   HOLD: own, X frozen, c only decreases.  ANN: W + X ≥ 1 kept.  Always INV.
 */
#ifndef C03_SPEC_H
#define C03_SPEC_H
#include "verif_rt.h"
#define IDLE 0
#define ANN 1
#define HOLD 2
#define W_MAX 0x3FFFFFFF /* capacity (A5): fewer than 2^30 simultaneous waiters */

typedef struct {
  int own, W, X;
} mx_abs_t;

#define MX_INV(c, own, W, X, mode)                                                              \
  (((own) == 0 || (own) == 1) && ((X) == 0 || (X) == 1) && (W) >= 0 && (W) <= W_MAX &&          \
   (c) == 1 - (own) - (W) && ((own) != 0 || (W) == 0) && ((X) != 1 || (own) == 1) &&            \
   ((mode) == IDLE || (mode) == ANN || (mode) == HOLD) &&                                       \
   ((mode) != HOLD || ((own) == 1 && (X) == 0)) && ((mode) != ANN || (W) + (X) >= 1))

static int mx_inv(int c, mx_abs_t a, int mode) { return MX_INV(c, a.own, a.W, a.X, mode); }

static int mx_rely(int mode, int c, mx_abs_t a, int c2, mx_abs_t a2) {
  if (mode == HOLD && !(a2.own == 1 && a2.X == 0 && c2 <= c && a2.W >= a.W)) return 0;
  return mx_inv(c2, a2, mode);
}
#endif
