/* C03 lemma layer: two arbitrary actors a (me) and b (another fiber), all counter values. */
#include "verif_rt.h"
#include "C03/spec.h"
typedef struct { int mode; int owes; } actor_t;
static int inv2(int c, mx_abs_t s, actor_t a, actor_t b) {
  return mx_inv(c, s, a.mode) && mx_inv(c, s, b.mode) && !(a.mode == HOLD && b.mode == HOLD) &&
         (!(a.mode == ANN && b.mode == ANN) || s.W + s.X >= 2) &&
         /* an owed wake means a hand-off is in transit */
         (a.owes == 0 || a.owes == 1) && (b.owes == 0 || b.owes == 1) && a.owes + b.owes <= s.X &&
         /* the fiber that owes the wake is between its increment and its wake call inside unlock */
         (a.owes == 0 || a.mode == IDLE) && (b.owes == 0 || b.mode == IDLE);
}
/* one action by actor b; 0 = not enabled */
static int act(int which, int* c, mx_abs_t* s, actor_t* b) {
  /* a fiber that owes a wake is still inside unlock: its only next step is that wake */
  if (b->owes != 0 && which != 4) return 0;
  switch (which) {
    case 0: /* lock / trylock decrement */
      if (b->mode != IDLE) return 0;
      if (*c == 1) { *c = 0; s->own = 1; b->mode = HOLD; return 1; }       /* FAST */
      return 0;
    case 1: /* lock: ANNOUNCE (trylock never does this) */
      if (b->mode != IDLE || *c > 0 || s->W >= W_MAX) return 0;
      *c -= 1; s->W += 1; b->mode = ANN; return 1;
    case 2: /* unlock: FREE */
      if (b->mode != HOLD || *c != 0) return 0;
      *c = 1; s->own = 0; b->mode = IDLE; return 1;
    case 3: /* unlock: HANDOFF */
      if (b->mode != HOLD || *c >= 0) return 0;
      *c += 1; s->W -= 1; s->X = 1; b->mode = IDLE; b->owes = 1; return 1;
    case 4: /* wake performed (ghost only here; the pop is the park layer's business) */
      if (b->owes != 1) return 0;
      b->owes = 0; return 2;
    case 5: /* RESUME: the designated waiter returns from its park; only after the wake was performed */
      if (b->mode != ANN || s->X != 1) return 0;
      s->X = 0; b->mode = HOLD; return 1;
  }
  return 0;
}
#define ANY int c = verif_int(); mx_abs_t s; s.own = verif_int(); s.W = verif_int(); s.X = verif_int(); \
  actor_t a, b; a.mode = verif_int(); a.owes = verif_int(); b.mode = verif_int(); b.owes = verif_int();

void lemma_L1_actions_preserve_inv(void) {
  ANY
  VASSUME(inv2(c, s, a, b));
  int w = (int)verif_pick(6);
  /* RESUME of b happens only once the wake for this hand-off has been performed by whoever owed it */
  VASSUME(!(w == 5 && a.owes == 1));
  VASSUME(act(w, &c, &s, &b));
  VASSERT(inv2(c, s, a, b), "L: L1 every action preserves INV (two arbitrary actors)");
  VCANARY("L1 premises satisfiable");
}
void lemma_L2_guarantee_inside_rely(void) {
  ANY
  VASSUME(inv2(c, s, a, b));
  int c0 = c; mx_abs_t s0 = s;
  int w = (int)verif_pick(6);
  VASSUME(!(w == 5 && a.owes == 1));
  VASSUME(act(w, &c, &s, &b));
  VASSERT(mx_rely(a.mode, c0, s0, c, s), "L: L2 every action of another fiber is inside my rely");
  VCANARY("L2 premises satisfiable");
}
void lemma_L3_rely_reflexive_transitive(void) {
  ANY
  int c1 = verif_int(), c2 = verif_int(); mx_abs_t s1, s2;
  s1.own = verif_int(); s1.W = verif_int(); s1.X = verif_int(); s2.own = verif_int(); s2.W = verif_int(); s2.X = verif_int();
  VASSUME(mx_inv(c, s, a.mode));
  VASSERT(mx_rely(a.mode, c, s, c, s), "L: L3 rely is reflexive");
  VASSUME(mx_rely(a.mode, c, s, c1, s1) && mx_rely(a.mode, c1, s1, c2, s2));
  VASSERT(mx_rely(a.mode, c, s, c2, s2), "L: L3 rely is transitive");
  VCANARY("L3 premises satisfiable");
}
void lemma_L4_mutual_exclusion(void) {
  ANY
  VASSUME(inv2(c, s, a, b));
  VASSERT(!(a.mode == HOLD && b.mode == HOLD), "L: L4 no two fibers hold the mutex together");
  /* a lock/trylock by b cannot succeed (FAST) while a holds */
  int w = 0;
  VASSUME(a.mode == HOLD);
  VASSERT(!act(w, &c, &s, &b), "L: L4 while one fiber holds, no other lock or trylock acquires");
  VCANARY("L4a premises satisfiable");
}
void lemma_L4_no_waiter_on_free_mutex(void) {
  ANY
  VASSUME(inv2(c, s, a, b));
  VASSERT(!(s.own == 0 && (a.mode == ANN || b.mode == ANN)), "L: L4 nobody waits on a mutex nobody holds");
  /* a waiter that is not designated yet has an owner or an in-transit owner in front of it, whose unlock will hand off */
  VASSERT(!(a.mode == ANN) || s.own == 1, "L: L4 a waiter always has an owner whose unlock is a hand-off");
  VCANARY("L4b premises satisfiable");
}
void lemma_L4_unlock_of_contended_is_handoff(void) {
  /* if a waits (announced, not designated) and b holds, b's unlock cannot be FREE: it is a HANDOFF that owes a wake */
  ANY
  VASSUME(inv2(c, s, a, b) && a.mode == ANN && b.mode == HOLD);
  VASSERT(!act(2, &c, &s, &b), "L: L4 an unlock with waiters is never a plain release");
  VASSERT(act(3, &c, &s, &b) == 1 && b.owes == 1 && s.X == 1, "L: L4 an unlock with waiters designates exactly one and owes one wake");
  VCANARY("L4c premises satisfiable");
}
