WEAVE = [dict(file='src/fiber_mutex.c', fns=['fiber_mutex_lock', 'fiber_mutex_trylock', 'fiber_mutex_unlock_internal', 'fiber_mutex_unlock'])]
PARK = ['fiber_manager_get', 'fiber_manager_wait_in_mpsc_queue', 'fiber_manager_wake_from_mpsc_queue', 'fiber_yield']
GROUPS = [
    dict(name='lock', tu='mutex.c', harness='h_lock', mode='D', enforce='fiber_mutex_lock', replace=PARK, functions=['fiber_mutex_lock']),
    dict(name='trylock', tu='mutex.c', harness='h_trylock', mode='D', enforce='fiber_mutex_trylock', replace=PARK, functions=['fiber_mutex_trylock']),
    dict(name='unlock_internal', tu='mutex.c', harness='h_unlock_internal', mode='D', enforce='fiber_mutex_unlock_internal', replace=PARK, functions=['fiber_mutex_unlock_internal']),
    dict(name='unlock', tu='mutex.c', harness='h_unlock', mode='D', enforce='fiber_mutex_unlock', replace=PARK + ['fiber_mutex_unlock_internal'], functions=['fiber_mutex_unlock'], replace_if_called=['fiber_manager_yield']),
    dict(name='init', tu='mutex.c', harness='h_init', mode='H', functions=['fiber_mutex_init'], unwind=3, exact_unwind=True),
    dict(name='lemmas', tu='lemmas.c', kind='lemmas', harness='', no_native='pure lemma'),
]
ASSUMPTIONS = [
    'A5 fewer than 2^30 simultaneous waiters on one mutex',
    'park/unpark contract (DESIGN.md 4.2): fiber_manager_wait_in_mpsc_queue returns only after a wake popped this fiber; fiber_manager_wake_from_mpsc_queue(…,1) pops and schedules exactly one waiter, waiting for an announced-but-not-yet-enqueued one — TRUSTED here, enforced on the real bodies under C01',
]
# obligation groups of other properties' specifications that this property also rests on (its anchors name those files); see DESIGN.md 11.2
IMPORTS = [dict(prop='C01', groups=['wait_in_mpsc', 'wake_from_mpsc', 'maintenance', 'maintenance_migrating_unlock']), dict(prop='C15', groups=['mpsc_push', 'mpsc_trypop'])]
