/* C03 — refinement proofs: the real fiber_mutex_lock / trylock / unlock_internal / unlock
 * (woven copy of /repo/src/fiber_mutex.c) against the action system in spec.h. */
#include "verif_rt.h"
#include "fiber_mutex.h"
#include "fiber_manager.h"
#include "C03/spec.h"

typedef struct {
  mx_abs_t a;
  int mode;
  int lastc;        /* counter at my last point */
  int decs, incs;   /* my successful counter updates in this call */
  int fast;         /* FAST actions */
  int handoffs;     /* HANDOFF actions */
  int owed;         /* wake(1) calls I still owe (0/1) */
  int wakes;        /* wake(1) calls performed */
  int parks;        /* parks performed */
  int yields;
 int curm;
} ghost_t;

fiber_mutex_t M;
ghost_t G;
fiber_manager_t VM0, VM1;
/* the kernel thread the calling fiber is on: any callee that can yield (park, wake - it yields while the waiter is not enqueued yet -, yield) may
   bring it back on another one.  G.curm is mentioned in no postcondition of a callee, so every such call leaves it arbitrary. */
#define CURM ((G.curm & 1) ? &VM1 : &VM0)
#define CUR_C (*(int*)&M.counter)

#include "src/fiber_mutex.c" /* woven real code */

static void spec_snap(void) { G.lastc = CUR_C; }

static void spec_step(int site) {
  int c = CUR_C, l = G.lastc;
  if (c == l) return;
  if (c == l - 1 && G.mode == IDLE) {
    G.decs += 1;
    if (l == 1) { G.a.own = 1; G.mode = HOLD; G.fast += 1; } /* FAST */
    else { VASSUME(G.a.W < W_MAX); G.a.W += 1; G.mode = ANN; } /* ANNOUNCE (capacity A5) */
    return;
  }
  if (c == l + 1 && G.mode == HOLD) {
    G.incs += 1;
    if (c == 1) { G.a.own = 0; G.mode = IDLE; } /* FREE */
    else { G.a.W -= 1; G.a.X = 1; G.mode = IDLE; G.handoffs += 1; G.owed += 1; } /* HANDOFF */
    return;
  }
  VASSERT(0, "G: my write to the counter is a decrement while idle (FAST/ANNOUNCE) or an increment while holding (FREE/HANDOFF)");
}

static void havoc_env(void) {
  int c2 = verif_int();
  mx_abs_t a2;
  a2.own = verif_int(); a2.W = verif_int(); a2.X = verif_int();
  VASSUME(mx_rely(G.mode, CUR_C, G.a, c2, a2));
  CUR_C = c2;
  G.a = a2;
}
static void spec_env(int site) { havoc_env(); }
static void spec_read(int site, void* addr) {}
#include "verif_point.inc"

/* ---- predicates for contracts --------------------------------------------------------------- */
static int counters_zero(void) { return G.decs == 0 && G.incs == 0 && G.fast == 0 && G.handoffs == 0 && G.owed == 0 && G.wakes == 0 && G.parks == 0 && G.yields == 0; }
static int PRE_idle(void) { return G.curm == 0 && G.mode == IDLE && counters_zero() && mx_inv(CUR_C, G.a, G.mode) && G.lastc == CUR_C; }
static int PRE_hold(void) { return G.curm == 0 && G.mode == HOLD && counters_zero() && mx_inv(CUR_C, G.a, G.mode) && G.lastc == CUR_C; }
/* lock: returns holding; acquired at once iff its decrement saw 1, otherwise announced itself and parked exactly once */
static int POST_lock(int ret) {
  return ret == FIBER_SUCCESS && G.mode == HOLD && G.decs == 1 && G.incs == 0 && G.parks == 1 - G.fast && G.owed == 0 &&
         G.wakes == 0 && mx_inv(CUR_C, G.a, G.mode);
}
/* trylock: never parks; success only by the 1 -> 0 transition; failure changes nothing */
static int POST_trylock(int ret) {
  if (G.parks != 0 || G.yields != 0 || G.incs != 0 || G.owed != 0 || !mx_inv(CUR_C, G.a, G.mode)) return 0;
  if (ret == FIBER_SUCCESS) return G.mode == HOLD && G.decs == 1 && G.fast == 1;
  return ret == FIBER_ERROR && G.mode == IDLE && G.decs == 0;
}
/* unlock_internal: one release; a contended release hands off to exactly one waiter (exactly one wake(1)) and says so */
static int POST_unlock_internal(int ret) {
  return G.mode == IDLE && G.incs == 1 && G.decs == 0 && G.owed == 0 && G.wakes == G.handoffs && G.handoffs >= 0 && G.handoffs <= 1 &&
         ret == G.handoffs && G.parks == 0 && G.yields == 0 && G.fast == 0 && G.lastc == CUR_C && mx_inv(CUR_C, G.a, G.mode);
}
static int POST_unlock(int ret) {
  return ret == FIBER_SUCCESS && G.mode == IDLE && G.incs == 1 && G.decs == 0 && G.owed == 0 && G.wakes == G.handoffs &&
         G.handoffs <= 1 && G.parks == 0 && G.yields == G.handoffs && mx_inv(CUR_C, G.a, G.mode);
}
/* park (fiber_manager_wait_in_mpsc_queue on the mutex's wait list): callable only after announcing; returns when a
   hand-off designated me (RESUME); anything the rely allows happened meanwhile */
static int PRE_park(fiber_manager_t* m, mpsc_fifo_t* q) { return m == CURM && q == &M.waiters && G.mode == ANN; }
static int POST_park(ghost_t o) {
  return G.mode == HOLD && mx_inv(CUR_C, G.a, G.mode) && G.lastc == CUR_C && G.parks == o.parks + 1 && G.decs == o.decs &&
         G.incs == o.incs && G.fast == o.fast && G.handoffs == o.handoffs && G.owed == o.owed && G.wakes == o.wakes && G.yields == o.yields;
}
/* wake (fiber_manager_wake_from_mpsc_queue): exactly the one wake I owe after a hand-off */
static int PRE_wake(fiber_manager_t* m, mpsc_fifo_t* q, int count) { return m == CURM && q == &M.waiters && count == 1 && G.owed == 1; }
static int POST_wake(ghost_t o, int ret) {
  return ret == 1 && G.mode == o.mode && mx_inv(CUR_C, G.a, G.mode) && G.lastc == CUR_C && G.owed == o.owed - 1 && G.wakes == o.wakes + 1 &&
         G.parks == o.parks && G.decs == o.decs && G.incs == o.incs && G.fast == o.fast && G.handoffs == o.handoffs && G.yields == o.yields;
}
static int POST_yield(ghost_t o) {
  return G.mode == o.mode && mx_inv(CUR_C, G.a, G.mode) && G.lastc == CUR_C && G.owed == o.owed && G.wakes == o.wakes &&
         G.parks == o.parks && G.decs == o.decs && G.incs == o.incs && G.fast == o.fast && G.handoffs == o.handoffs && G.yields == o.yields + 1;
}

#if defined(VERIF_MODE_D)
int fiber_mutex_lock(fiber_mutex_t* mutex)
  __CPROVER_requires(mutex == &M && PRE_idle()) __CPROVER_ensures(POST_lock(__CPROVER_return_value))
  __CPROVER_assigns(M.counter, G, VM0.lock_contention_count, VM1.lock_contention_count);
int fiber_mutex_trylock(fiber_mutex_t* mutex)
  __CPROVER_requires(mutex == &M && PRE_idle()) __CPROVER_ensures(POST_trylock(__CPROVER_return_value))
  __CPROVER_assigns(M.counter, G);
int fiber_mutex_unlock_internal(fiber_mutex_t* mutex)
  __CPROVER_requires(mutex == &M && PRE_hold()) __CPROVER_ensures(POST_unlock_internal(__CPROVER_return_value))
  __CPROVER_assigns(M.counter, G);
int fiber_mutex_unlock(fiber_mutex_t* mutex)
  __CPROVER_requires(mutex == &M && PRE_hold()) __CPROVER_ensures(POST_unlock(__CPROVER_return_value))
  __CPROVER_assigns(M.counter, G);
/* callee contracts (park/unpark layer, DESIGN.md 4.2; enforced on the real bodies under C01) */
fiber_manager_t* fiber_manager_get(void) __CPROVER_ensures(__CPROVER_return_value == CURM) __CPROVER_assigns();
void fiber_manager_wait_in_mpsc_queue(fiber_manager_t* manager, mpsc_fifo_t* fifo)
  __CPROVER_requires(PRE_park(manager, fifo)) __CPROVER_ensures(POST_park(__CPROVER_old(G)))
  __CPROVER_assigns(M.counter, G);
int fiber_manager_wake_from_mpsc_queue(fiber_manager_t* manager, mpsc_fifo_t* fifo, int count)
  __CPROVER_requires(PRE_wake(manager, fifo, count)) __CPROVER_ensures(POST_wake(__CPROVER_old(G), __CPROVER_return_value))
  __CPROVER_assigns(M.counter, G);
int fiber_yield(void) __CPROVER_ensures(POST_yield(__CPROVER_old(G))) __CPROVER_assigns(M.counter, G);
/* (not called by the unchanged code; a change that yields through a manager pointer must use the CURRENT thread's manager) */
void fiber_manager_yield(fiber_manager_t* manager) __CPROVER_requires(manager == CURM) __CPROVER_ensures(POST_yield(__CPROVER_old(G))) __CPROVER_assigns(M.counter, G);
#else
/* the same callee contracts expanded by hand (mode H and native replay): assert requires, havoc, assume ensures */
fiber_manager_t* fiber_manager_get(void) { return CURM; }
void fiber_manager_wait_in_mpsc_queue(fiber_manager_t* manager, mpsc_fifo_t* fifo) {
  VASSERT(PRE_park(manager, fifo), "C: park only after announcing, on my manager and this mutex's wait list");
  ghost_t o = G;
  G.mode = HOLD; G.parks += 1; havoc_env(); spec_snap(); G.curm = verif_int();
  VASSUME(POST_park(o));
}
int fiber_manager_wake_from_mpsc_queue(fiber_manager_t* manager, mpsc_fifo_t* fifo, int count) {
  VASSERT(PRE_wake(manager, fifo, count), "C: wake exactly once, with count 1, after a hand-off");
  ghost_t o = G;
  G.owed -= 1; G.wakes += 1; havoc_env(); spec_snap(); G.curm = verif_int();
  VASSUME(POST_wake(o, 1));
  return 1;
}
int fiber_yield(void) { ghost_t o = G; G.yields += 1; havoc_env(); spec_snap(); G.curm = verif_int(); VASSUME(POST_yield(o)); return FIBER_SUCCESS; }
void fiber_manager_yield(fiber_manager_t* manager) { VASSERT(manager == CURM, "C: yield through the manager of the kernel thread the fiber is on now"); (void)fiber_yield(); }
#endif

static void init_any(void) {
  CUR_C = verif_int();
  G.a.own = verif_int(); G.a.W = verif_int(); G.a.X = verif_int();
  G.mode = verif_int();
  G.decs = G.incs = G.fast = G.handoffs = G.owed = G.wakes = G.parks = G.yields = 0; G.curm = 0;   /* (w.l.o.g. the call starts on thread 0) */
  spec_snap();
}
void h_lock(void) {
  init_any(); VASSUME(PRE_idle());
  int r = fiber_mutex_lock(&M);
  VASSERT(POST_lock(r), "H: lock returns holding; immediate iff its decrement saw 1, else announced and parked exactly once");
  VCANARY("lock can return");
}
void h_trylock(void) {
  init_any(); VASSUME(PRE_idle());
  int r = fiber_mutex_trylock(&M);
  VASSERT(POST_trylock(r), "H: trylock never parks, succeeds only by taking 1 -> 0, else changes nothing");
  VCANARY("trylock can return");
}
void h_unlock_internal(void) {
  init_any(); VASSUME(PRE_hold());
  int r = fiber_mutex_unlock_internal(&M);
  VASSERT(POST_unlock_internal(r), "H: unlock releases once; contended release = exactly one hand-off and exactly one wake(1)");
  VCANARY("unlock_internal can return");
}
void h_unlock(void) {
  init_any(); VASSUME(PRE_hold());
  int r = fiber_mutex_unlock(&M);
  VASSERT(POST_unlock(r), "H: unlock = unlock_internal (+ courtesy yield)");
  VCANARY("unlock can return");
}
/* init: from ANY memory content (a lock placed in recycled memory) the initialiser establishes the state every proof above starts from */
void h_init(void) {
  static fiber_mutex_t X; memset(&X, (int)verif_u64(), sizeof(X));
  int r = fiber_mutex_init(&X);
  if (r == FIBER_SUCCESS) VASSERT(X.counter == 1 && (X.waiters.head != 0 && X.waiters.head == X.waiters.tail && X.waiters.head->next == 0), "H: C03 init: the mutex starts free (counter 1) with an empty, usable wait queue, whatever the memory held");
  else VASSERT(r == FIBER_ERROR, "H: C03 init reports an allocation failure as FIBER_ERROR");
  VCANARY("init can return");
}
