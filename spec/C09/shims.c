/* C09 — the libc sleep shims (woven /repo/src/fiber_io.c): the duration handed to fiber_sleep is never shorter than requested. */
#include "verif_rt.h"
#include <time.h>
#include <stdint.h>
struct fiber_manager; 
static uint64_t GOT_S, GOT_US; static int CALLS;
int fiber_sleep(uint32_t seconds, uint32_t useconds) { GOT_S = seconds; GOT_US = useconds; CALLS++; return 1; }
static struct fiber_manager* THE_MANAGER = (struct fiber_manager*)1;
int* __errno_location(void) { static int e; return &e; }
int fiber_wait_for_event(int fd, unsigned ev) { return 1; }
void fiber_fd_closed(int fd) {}
#include "src/fiber_io.c"
struct fiber_manager* fiber_manager_get(void) { return (struct fiber_manager*)THE_MANAGER; }
static void spec_snap(void) {}
static void spec_step(int site) {}
static void spec_env(int site) {}
static void spec_read(int site, void* addr) {}
#include "verif_point.inc"
static uint64_t got_us(void) { return GOT_S * 1000000ull + GOT_US; }
void h_sleep(void) { unsigned s = verif_u32(); thread_locked = 0; CALLS = 0; unsigned r = sleep(s);
  VASSERT(CALLS == 1 && GOT_S >= (uint64_t)s && r == 0, "C09.shim: sleep(s) sleeps at least s seconds"); VCANARY("sleep can return"); }
void h_usleep(void) { useconds_t u = verif_u32(); thread_locked = 0; CALLS = 0; int r = usleep(u);
  VASSERT(CALLS == 1 && GOT_US < 1000000ull && (GOT_S > u / 1000000u || (GOT_S == u / 1000000u && GOT_US >= u % 1000000u)) && r == 0, "C09.shim: usleep(u) sleeps at least u microseconds"); VCANARY("usleep can return"); }
void h_nanosleep(void) { struct timespec rq, rm; rq.tv_sec = (time_t)verif_u64(); rq.tv_nsec = (long)verif_u64(); thread_locked = 0; CALLS = 0;
  /* ASSUMPTION: tv_sec fits the 32-bit seconds parameter of fiber_sleep (136 years); valid timespec */
  VASSUME(rq.tv_sec >= 0 && (uint64_t)rq.tv_sec <= 0xFFFFFFFFull && rq.tv_nsec >= 0 && rq.tv_nsec <= 999999999L);
  int r = nanosleep(&rq, verif_bool() ? &rm : 0);
  VASSERT(CALLS == 1 && r == 0 && GOT_S >= (uint64_t)rq.tv_sec && (GOT_S > (uint64_t)rq.tv_sec || GOT_US * 1000ull >= (uint64_t)rq.tv_nsec), "C09.shim: nanosleep sleeps at least the requested time"); VCANARY("nanosleep can return"); }
