WEAVE = [dict(file='src/fiber_event_native.c', fns=['fiber_sleep', 'fiber_event_wake_sleepers', 'waiter_insert', 'waiter_remove_less_than', 'fiber_fd_closed', 'fiber_event_wake_waiters']),
         dict(file='src/fiber_io.c', fns=['sleep', 'usleep', 'nanosleep'])]
GROUPS = [
    dict(name='fiber_sleep', tu='event.c', harness='h_fiber_sleep', mode='H', functions=['fiber_sleep', 'waiter_insert'], unwind=2, exact_unwind=True, cbmc_flags=['--sat-solver', 'cadical'],
         unbounded_note='waiter_insert runs on an empty tree here (loop-free path); arithmetic and publication obligations are unbounded over all inputs'),
    dict(name='shims', tu='shims.c', harness='h_sleep', mode='H', functions=['sleep']),
    dict(name='shim_usleep', tu='shims.c', harness='h_usleep', mode='H', functions=['usleep']),
    dict(name='shim_nanosleep', tu='shims.c', harness='h_nanosleep', mode='H', functions=['nanosleep']),
    dict(name='wake_sleepers_le3', tu='event.c', harness='h_wake_sleepers', mode='H', functions=['fiber_event_wake_sleepers', 'waiter_remove_less_than', 'waiter_insert'],
         unwind=6, bounded=True, bound='sleeper trees of <= 3 nodes (every shape and key order, equal keys included), symbolic clock', timeout=600),
]
ASSUMPTIONS = ['timer ticks are at least 1 ms apart (they are 5 ms: FIBER_TIME_RESOLUTION_MS) and the tick counter stays below 2^62',
               'nanosleep: tv_sec fits the uint32 seconds parameter of fiber_sleep',
               'spinlock by the C18 contract; fiber_manager_yield / scheduler by the C01 contracts',
               'BST shape induction is out of reach: tree-level exactly-once / only-due / none-early are bounded stand-ins (<= 3 nodes quick, <= 4 thorough)']
# obligation groups of other properties' specifications that this property also rests on (its anchors name those files); see DESIGN.md 11.2
IMPORTS = [dict(prop='C01', groups=['maintenance', 'maintenance_migrating_unlock'])]
