/* C09 — sleeping fibers.  Real code: fiber_sleep, fiber_event_wake_sleepers, waiter_insert, waiter_remove_less_than
 * (woven /repo/src/fiber_event_native.c).  Also hosts the event-layer functions C08 relies on (fiber_fd_closed,
 * fiber_wait_for_event, fiber_event_wake_waiters).
 *
 * Contract (from the statement)
 *   never early   the node fiber_sleep inserts has wake_time = now + S with S >= seconds*1000 + ceil(useconds/1000) computed
 *                 without wrap-around, for every uint32 seconds / useconds (a node is woken only when the tick count exceeds its
 *                 wake_time, and ticks are >= 1 ms apart) — arithmetic obligation, unbounded
 *   publication   the node is complete (wake_time, waiter) and the fiber marked WAITING before it becomes reachable for the waker,
 *                 i.e. everything happens under sleep_spinlock and the lock is released only through manager->spinlock_to_unlock
 *                 (after the context switch, C01)
 *   ownership     the node lives on the sleeper's stack: once the sleeper has been handed to the scheduler it may run (on another
 *                 thread) and return from fiber_sleep, so the waker must not touch the node afterwards: the scheduler stub frees it
 *   exactly once / only the due ones / none early at the level of the tree: bounded stand-in (tree.c)
 */
#include "verif_rt.h"
#include "fiber.h"
#include "fiber_manager.h"
#include "fiber_event.h"
#include "fiber_spinlock.h"
#include <stdlib.h>
typedef struct {
  int locks, unlocks, lock_held;
  int yields; int scheduled; int schedule_order_ok;
  uint64_t now_at_lock;
 int plain_yields;
} ghost_t;
ghost_t G;
fiber_manager_t VM0;
fiber_t ME;
int* __errno_location(void) { static int e; return &e; }

#include "src/fiber_event_native.c" /* woven real code (file-local statics reachable here) */

static void spec_snap(void) {}
static void spec_step(int site) {}
static void spec_env(int site) {}
static void spec_read(int site, void* addr) {}
#include "verif_point.inc"

fiber_manager_t* fiber_manager_get(void) { return &VM0; }
void fiber_do_real_sleep(uint32_t s, uint32_t us) { VASSERT(0, "C: fiber_do_real_sleep is not used once the event system is initialised"); }
int fiber_spinlock_lock(fiber_spinlock_t* l) {
  VASSERT(!G.lock_held, "C: spinlock not taken twice");
  G.lock_held = 1; if (G.locks < 3) G.locks++;
  if (l == &sleep_spinlock) { /* other threads advanced the clock before I got the lock */
    uint64_t n = verif_u64(); VASSUME(n >= timer_trigger_count && n < (1ull << 62)); timer_trigger_count = n; G.now_at_lock = n;
  }
  return FIBER_SUCCESS;
}
int fiber_spinlock_unlock(fiber_spinlock_t* l) { VASSERT(G.lock_held, "C: unlock only what is held"); G.lock_held = 0; if (G.unlocks < 3) G.unlocks++; return FIBER_SUCCESS; }

/* ---------------- (a) fiber_sleep: arithmetic + publication, all inputs ---------------- */
static uint32_t ARG_S, ARG_US;
static waiter_el_t* published; /* the node reachable from `sleepers` when I switch away */
static uint64_t published_wake;
/* a plain yield (no park): returns with nothing published; fiber_sleep on the unchanged tree never calls it — a sleep path that merely yields
   publishes no wake time and is caught by the postconditions */
int fiber_yield(void) { G.plain_yields++; return 1; }
void fiber_manager_yield(fiber_manager_t* m) {
  if (G.yields < 3) G.yields++;
  VASSERT(m == &VM0, "C01: yield on my own manager");
  VASSERT(G.lock_held && VM0.spinlock_to_unlock == &sleep_spinlock, "C09.publication: sleep_spinlock is still held at the switch and is released only via spinlock_to_unlock");
  VASSERT(sleepers != 0, "C09.publication: the node is in the sleeper tree before the switch");
  published = sleepers;
  VASSERT(published->waiter == (void*)&ME && ME.state == FIBER_STATE_WAITING, "C09.publication: node complete (waiter set) and fiber WAITING before it can be woken");
  published_wake = published->wake_time;
  G.lock_held = 0; /* the successor fiber releases it after the switch */
}
void h_fiber_sleep(void) {
  ARG_S = verif_u32(); ARG_US = verif_u32();
  event_fd = 3; sleepers = 0; timer_trigger_count = verif_u64(); VASSUME(timer_trigger_count < (1ull << 62));
  VM0.current_fiber = &ME; VM0.spinlock_to_unlock = 0; ME.state = FIBER_STATE_RUNNING;
  G.locks = G.unlocks = G.lock_held = G.yields = 0; published = 0;
  int r = fiber_sleep(ARG_S, ARG_US);
  VASSERT(r == FIBER_SUCCESS && G.yields == 1 && G.locks == 1 && G.unlocks == 0, "C09: fiber_sleep locks once, parks once, never unlocks directly");
  uint64_t need_ms = (uint64_t)ARG_S * 1000u + ((uint64_t)ARG_US + 999u) / 1000u;
  VASSERT(published != 0 && published_wake >= G.now_at_lock, "C09.never-early: wake time does not wrap");
  VASSERT(published != 0 && published_wake - G.now_at_lock >= need_ms, "C09.never-early: the wake tick is at least seconds*1000 + ceil(useconds/1000) ticks after the tick count read under the lock");
  VCANARY("fiber_sleep can return");
}

/* ---------------- (d) wake-up: ownership of the stack-resident node ---------------- */
static waiter_el_t* NODES[3]; static fiber_t FIB[3]; static int NN;
void fiber_scheduler_schedule(fiber_scheduler_t* s, fiber_t* f) {
  int k = -1;
  if (f == &FIB[0]) k = 0; else if (f == &FIB[1]) k = 1; else if (f == &FIB[2]) k = 2;
  VASSERT(k >= 0 && k < NN && NODES[k] != 0, "C09.exactly-once: only sleeping fibers are scheduled, each once");
  VASSERT(f->state == FIBER_STATE_READY, "C01: a woken fiber is READY when it is handed to the scheduler");
  VASSERT(NODES[k]->wake_time < timer_trigger_count, "C09.never-early: a sleeper is scheduled only after its wake tick has passed");
  /* from here on the fiber may run on another thread and return from fiber_sleep: its stack frame (the node) is gone */
  free(NODES[k]); NODES[k] = 0;
  if (G.scheduled < 3) G.scheduled++;
}
void h_wake_sleepers(void) {
  NN = (int)verif_pick(3) + 1;
  event_fd = 3; sleepers = 0; timer_trigger_count = verif_u64(); VASSUME(timer_trigger_count < (1ull << 61));
  G.locks = G.unlocks = G.lock_held = G.scheduled = 0;
  VM0.scheduler = (fiber_scheduler_t*)&VM0; /* any non-NULL handle */
  for (int i = 0; i < 3; i++) if (i < NN) {
    NODES[i] = (waiter_el_t*)malloc(sizeof(waiter_el_t)); VASSUME(NODES[i] != 0);
    NODES[i]->wake_time = verif_u64(); NODES[i]->waiter = &FIB[i]; NODES[i]->next = NODES[i]->left = NODES[i]->right = 0;
    FIB[i].state = FIBER_STATE_WAITING;
    waiter_insert(&sleepers, NODES[i]);
  }
  uint64_t ticks = verif_u64(); VASSUME(ticks < (1ull << 32));
  uint64_t due = 0, t1 = timer_trigger_count + ticks;  /* the lock stub may advance the clock further: count with the final value */
  fiber_event_wake_sleepers(&VM0, ticks);
  for (int i = 0; i < 3; i++) if (i < NN) {
    /* NODES[i] == 0 <=> it was scheduled */
    if (NODES[i] != 0) VASSERT(!(NODES[i]->wake_time < timer_trigger_count), "B: C09 every due sleeper is woken (trees of <= 3 nodes)");
  }
  VASSERT(G.locks == 1 && G.unlocks == 1 && !G.lock_held, "C09: the sleeper tree is walked under sleep_spinlock");
  VCANARY("wake_sleepers can return");
}

