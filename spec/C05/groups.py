FNS = ['fiber_cond_signal', 'fiber_cond_broadcast', 'fiber_cond_wait']
WEAVE = [dict(file='src/fiber_cond.c', fns=FNS)]
CAL = ['fiber_manager_get', 'fiber_mutex_lock', 'fiber_mutex_unlock', 'fiber_manager_wake_from_mpsc_queue', 'fiber_manager_wait_in_mpsc_queue_and_unlock']
GROUPS = [dict(name=f.replace('fiber_cond_', ''), tu='cond.c', harness='h_' + f.replace('fiber_cond_', ''), mode='D', enforce=f, replace=CAL, replace_if_called=['fiber_mutex_trylock'], functions=[f]) for f in FNS] + [
    dict(name='init', tu='cond.c', harness='h_init', mode='H', functions=['fiber_cond_init'], unwind=3, exact_unwind=True),
    dict(name='lemmas', tu='lemmas.c', kind='lemmas', harness='', no_native='pure lemma')]
ASSUMPTIONS = ['A5 fewer than 2^30 registered waiters',
               'fiber_mutex_lock/unlock by the contract proved under C03; park-and-unlock / wake by the park layer contract (DESIGN.md 4.2: the mutex is released only after the waiter is enqueued and its context saved) TRUSTED here, enforced under C01']
# obligation groups of other properties' specifications that this property also rests on (its anchors name those files); see DESIGN.md 11.2
IMPORTS = [dict(prop='C01', groups=['wait_in_mpsc', 'wake_from_mpsc', 'maintenance', 'maintenance_migrating_unlock']), dict(prop='C03', groups=['lock', 'unlock_internal', 'unlock', 'init'])]
