/* C05 lemma layer: me (a) and another fiber (b); the internal mutex is modelled by "at most one actor in LOCKED..RELEASED". */
#include "verif_rt.h"
#include "C05/spec.h"
/* from b's point of view "uo" is a's UNDO and vice versa: keep one global view with explicit actor modes */
static int inv2(long wc, long reg, long TR, int ma, int mb) {
  int ua = (ma == UNDO), ub = (mb == UNDO);
  return reg >= 0 && reg <= CAP && TR >= 0 && TR <= CAP && ma >= IDLE && ma <= RESUMED && mb >= IDLE && mb <= RESUMED &&
         wc == reg - ua - ub && !(HOLDS_IMX(ma) && HOLDS_IMX(mb)) &&
         ((ma != REGISTERED && mb != REGISTERED) || reg + TR >= 1) && (!(ma == REGISTERED && mb == REGISTERED) || reg + TR >= 2);
}
static cv_abs_t view(long reg, long TR, int other) { cv_abs_t v; v.reg = reg; v.TR = TR; v.uo = (other == UNDO); return v; }
static int act(int w, long* wc, long* reg, long* TR, int* m, int other, long* woken) {
  switch (w) {
    case 0: if (*m != IDLE || *reg >= CAP) return 0; *wc += 1; *reg += 1; *m = REGISTERED; return 1;              /* REGISTER */
    case 1: if (*m != IDLE || HOLDS_IMX(other)) return 0; *m = LOCKED; return 1;                                  /* lock internal mutex */
    case 2: if (*m != LOCKED) return 0; if (*wc >= 1) { if (*TR >= CAP) return 0; *wc -= 1; *reg -= 1; *TR += 1; *woken = 1; *m = CLAIMED; } else { *wc -= 1; *m = UNDO; } return 1; /* signal */
    case 3: if (*m != UNDO) return 0; *wc += 1; *m = RELEASED; return 1;
    case 4: if (*m != LOCKED || *TR + *wc > CAP) return 0; *woken = *wc; *TR += *wc; *reg = 0; *wc = 0; *m = CLAIMED; return 1; /* broadcast */
    case 5: if (*m != CLAIMED) return 0; *m = RELEASED; return 1;                                                 /* the owed wake */
    case 6: if (*m != RELEASED) return 0; *m = IDLE; return 1;                                                    /* unlock internal mutex */
    case 7: if (*m != REGISTERED || *TR < 1) return 0; *TR -= 1; *m = RESUMED; return 1;                          /* a claimed waiter resumes */
    case 8: if (*m != RESUMED) return 0; *m = IDLE; return 1;
  }
  return 0;
}
#define ANY long wc = (long)verif_u64(), reg = (long)verif_u64(), TR = (long)verif_u64(); int ma = verif_int(), mb = verif_int(); long woken = 0;
void lemma_L1_actions_preserve_inv(void) {
  ANY VASSUME(inv2(wc, reg, TR, ma, mb));
  int w = (int)verif_pick(9); VASSUME(act(w, &wc, &reg, &TR, &mb, ma, &woken));
  VASSERT(inv2(wc, reg, TR, ma, mb), "L: L1 every action preserves INV");
  VCANARY("L1 premises satisfiable");
}
void lemma_L2_guarantee_inside_rely(void) {
  ANY VASSUME(inv2(wc, reg, TR, ma, mb));
  long wc0 = wc; cv_abs_t v0 = view(reg, TR, mb);
  int w = (int)verif_pick(9); VASSUME(act(w, &wc, &reg, &TR, &mb, ma, &woken));
  VASSERT(cv_rely(ma, wc0, v0, wc, view(reg, TR, mb)), "L: L2 every action of another fiber is inside my rely (under the internal mutex: registrations only)");
  VCANARY("L2 premises satisfiable");
}
void lemma_L4_signal_not_lost_broadcast_all(void) {
  ANY VASSUME(inv2(wc, reg, TR, ma, mb) && mb == LOCKED);
  long reg0 = reg;
  /* a signal issued while a waiter is registered claims exactly one and owes a wake for it */
  if (verif_bool()) { VASSUME(act(2, &wc, &reg, &TR, &mb, ma, &woken)); VASSERT(reg0 == 0 ? (woken == 0 && mb == UNDO) : (woken == 1 && reg == reg0 - 1), "L: L4 signal releases exactly one waiter iff one is registered"); }
  else { VASSUME(act(4, &wc, &reg, &TR, &mb, ma, &woken)); VASSERT(woken == reg0 && reg == 0, "L: L4 broadcast releases all registered waiters"); }
  VCANARY("L4a premises satisfiable");
}
void lemma_L4_no_spurious_release(void) {
  /* a waiter resumes only by consuming a claim (TR), and claims are created only by signal/broadcast actions */
  ANY VASSUME(inv2(wc, reg, TR, ma, mb) && mb == REGISTERED && TR == 0);
  VASSERT(!act(7, &wc, &reg, &TR, &mb, ma, &woken), "L: L4 no waiter is released without a signal or broadcast having claimed it");
  VCANARY("L4b premises satisfiable");
}
