/* C05 — refinement proofs of fiber_cond_wait / signal / broadcast (woven /repo/src/fiber_cond.c) */
#include "verif_rt.h"
#include "fiber_cond.h"
#include "fiber_manager.h"
#include "C05/spec.h"
typedef struct {
  cv_abs_t a;
  int mode;
  long lastwc;
  int holds_user;      /* I hold the caller's mutex */
  long owed;           /* wake count I owe (0 = none) */
  int wakes, parks, regs, claims, undos, imx_locks, imx_unlocks, user_locks;
  int obs; long obs_val; /* under the internal mutex I accessed waiter_count when it had this value */
  int nobody;            /* I released the internal mutex after observing waiter_count == 0 without writing it */
} ghost_t;
fiber_cond_t CV;
fiber_mutex_t UM; /* the caller's mutex */
ghost_t G;
fiber_manager_t VM0;
#define CUR_WC (*(long*)&CV.waiter_count)
#define CNT0 (G.owed == 0 && G.wakes == 0 && G.parks == 0 && G.regs == 0 && G.claims == 0 && G.undos == 0 && G.imx_locks == 0 && G.imx_unlocks == 0 && G.user_locks == 0 && G.obs == 0 && G.nobody == 0)

#include "src/fiber_cond.c"

static void spec_snap(void) { G.lastwc = CUR_WC; }
static void spec_step(int site) {
  long c = CUR_WC, l = G.lastwc;
  if (c == l) return;
  if (G.mode == IDLE && c == l + 1) { /* REGISTER */
    VASSERT(G.holds_user == 1, "G: a waiter registers while it still holds the caller's mutex (unlock-and-wait is atomic for signallers)");
    VASSUME(G.a.reg < CAP); G.a.reg += 1; G.regs += 1; G.mode = REGISTERED; return;
  }
  if (G.mode == LOCKED && c == l - 1) { /* signal's decrement */
    if (l >= 1) { G.a.reg -= 1; VASSUME(G.a.TR < CAP); G.a.TR += 1; G.claims += 1; G.owed = 1; G.mode = CLAIMED; }
    else { G.mode = UNDO; }
    return;
  }
  if (G.mode == UNDO && c == l + 1) { G.undos += 1; G.mode = RELEASED; return; }
  if (G.mode == LOCKED && c == 0) { /* broadcast's exchange: takes all l = reg registered waiters */
    G.a.reg = 0; VASSUME(G.a.TR + l <= CAP); G.a.TR += l; G.claims += 1; G.owed = l; G.mode = CLAIMED; return;
  }
  VASSERT(0, "G: my write to waiter_count is REGISTER, a signal's claim/undo pair, or a broadcast's take-all (under the internal mutex)");
}
static void havoc_env(void) {
  long wc2 = (long)verif_u64(); cv_abs_t a2; a2.reg = (long)verif_u64(); a2.uo = (long)verif_u64(); a2.TR = (long)verif_u64();
  VASSUME(cv_rely(G.mode, CUR_WC, G.a, wc2, a2));
  CUR_WC = wc2; G.a = a2;
}
static void spec_env(int site) { havoc_env(); }
static void spec_read(int site, void* addr) {
  if (G.mode == LOCKED && addr == (void*)&CV.waiter_count && !G.obs) { G.obs = 1; G.obs_val = CUR_WC; }
}
#include "verif_point.inc"

static int inv_now(void) { return cv_inv(CUR_WC, G.a, G.mode) && G.lastwc == CUR_WC; }
static int PRE_sig(void) { return G.mode == IDLE && CNT0 && inv_now(); }
static int PRE_wait(void) { return G.mode == IDLE && CNT0 && G.holds_user == 1 && inv_now(); }
/* signal/broadcast: under the internal mutex claim (one / all) registered waiters and wake exactly those, once; a signal that
   finds nobody leaves the count as found */
static int POST_sig(int ret, int is_broadcast) {
  return ret == FIBER_SUCCESS && G.mode == IDLE && inv_now() && G.owed == 0 && G.imx_locks == 1 && G.imx_unlocks == 1 && G.parks == 0 && G.regs == 0 &&
         G.wakes >= 0 && G.wakes <= 1 && G.claims + G.undos + G.nobody == 1 && G.claims >= 0 && G.undos >= 0 && G.nobody >= 0 && (!is_broadcast || G.undos == 0) && G.user_locks == 0;
}
/* wait: registers once while holding the mutex, parks once (park releases the mutex after the context is saved), re-locks */
static int POST_wait(int ret) {
  return ret == FIBER_SUCCESS && G.mode == RESUMED && inv_now() && G.regs == 1 && G.parks == 1 && G.holds_user == 1 && G.user_locks == 1 && G.owed == 0 &&
         G.wakes == 0 && G.claims == 0 && G.undos == 0 && G.imx_locks == 0 && G.imx_unlocks == 0;
}
/* all bookkeeping fields equal to those of `o` after adding the given deltas */
static int cnt_eq(ghost_t o, int d_imxl, int d_imxu, int d_ul, int d_wakes, int d_parks, int d_nobody) {
  return G.regs == o.regs && G.claims == o.claims && G.undos == o.undos && G.obs == o.obs && G.obs_val == o.obs_val &&
         G.imx_locks == o.imx_locks + d_imxl && G.imx_unlocks == o.imx_unlocks + d_imxu && G.user_locks == o.user_locks + d_ul &&
         G.wakes == o.wakes + d_wakes && G.parks == o.parks + d_parks && G.nobody == o.nobody + d_nobody;
}
/* internal / user mutex by C03's contract */
static int PRE_mlock(fiber_mutex_t* m) { return (m == &CV.internal_mutex && G.mode == IDLE) || (m == &UM && G.mode == RESUMED && G.holds_user == 0); }
static int POST_mlock(ghost_t o, fiber_mutex_t* m, int ret) {
  if (ret != FIBER_SUCCESS || !inv_now() || G.owed != o.owed) return 0;
  if (m == &CV.internal_mutex) return G.mode == LOCKED && G.holds_user == o.holds_user && cnt_eq(o, 1, 0, 0, 0, 0, 0);
  return G.mode == RESUMED && G.holds_user == 1 && cnt_eq(o, 0, 0, 1, 0, 0, 0);
}
/* trylock (C03's contract): either acquires like lock, or fails and changes nothing.  The unchanged code never calls it; a change that does is
   judged by what it then does with the failure (a signal that gives up is a lost signal: POST_sig) */
static int POST_mtrylock(ghost_t o, fiber_mutex_t* m, int ret) {
  if (ret == FIBER_SUCCESS) return POST_mlock(o, m, ret);
  return ret == FIBER_ERROR && inv_now() && G.owed == o.owed && G.mode == o.mode && G.holds_user == o.holds_user && cnt_eq(o, 0, 0, 0, 0, 0, 0);
}
/* the internal mutex is released when the claim/undo is complete and the owed wake issued, or after a broadcast that took 0 */
static int PRE_munlock(fiber_mutex_t* m) {
  return m == &CV.internal_mutex && G.owed == 0 && (G.mode == RELEASED || (G.mode == LOCKED && G.obs == 1 && G.obs_val == 0));
}
static int POST_munlock(ghost_t o, int ret) {
  return ret == FIBER_SUCCESS && G.mode == IDLE && inv_now() && G.owed == o.owed && G.holds_user == o.holds_user && cnt_eq(o, 0, 1, 0, 0, 0, o.mode == LOCKED);
}
static int PRE_wake(fiber_manager_t* m, mpsc_fifo_t* q, int count) { return m == &VM0 && q == &CV.waiters && G.mode == CLAIMED && G.owed >= 1 && (long)count == G.owed; }
static int POST_wake(ghost_t o, int count, int ret) { return ret == count && G.mode == RELEASED && inv_now() && G.owed == 0 && G.holds_user == o.holds_user && cnt_eq(o, 0, 0, 0, 1, 0, 0); }
static int PRE_parku(fiber_manager_t* m, mpsc_fifo_t* q, fiber_mutex_t* mx) { return m == &VM0 && q == &CV.waiters && mx == &UM && G.mode == REGISTERED && G.holds_user == 1; }
static int POST_parku(ghost_t o) { return G.mode == RESUMED && inv_now() && G.holds_user == 0 && G.owed == o.owed && cnt_eq(o, 0, 0, 0, 0, 1, 0); }

#if defined(VERIF_MODE_D)
#define ASG __CPROVER_assigns(CV.waiter_count, CV.caller_mutex, G)
int fiber_cond_signal(fiber_cond_t* cond) __CPROVER_requires(cond == &CV && PRE_sig()) __CPROVER_ensures(POST_sig(__CPROVER_return_value, 0)) ASG;
int fiber_cond_broadcast(fiber_cond_t* cond) __CPROVER_requires(cond == &CV && PRE_sig()) __CPROVER_ensures(POST_sig(__CPROVER_return_value, 1)) ASG;
int fiber_cond_wait(fiber_cond_t* cond, fiber_mutex_t* mutex) __CPROVER_requires(cond == &CV && mutex == &UM && PRE_wait()) __CPROVER_ensures(POST_wait(__CPROVER_return_value)) ASG;
fiber_manager_t* fiber_manager_get(void) __CPROVER_ensures(__CPROVER_return_value == &VM0) __CPROVER_assigns();
int fiber_mutex_lock(fiber_mutex_t* mutex) __CPROVER_requires(PRE_mlock(mutex)) __CPROVER_ensures(POST_mlock(__CPROVER_old(G), mutex, __CPROVER_return_value)) ASG;
int fiber_mutex_trylock(fiber_mutex_t* mutex) __CPROVER_requires(PRE_mlock(mutex)) __CPROVER_ensures(POST_mtrylock(__CPROVER_old(G), mutex, __CPROVER_return_value)) ASG;
int fiber_mutex_unlock(fiber_mutex_t* mutex) __CPROVER_requires(PRE_munlock(mutex)) __CPROVER_ensures(POST_munlock(__CPROVER_old(G), __CPROVER_return_value)) ASG;
int fiber_manager_wake_from_mpsc_queue(fiber_manager_t* manager, mpsc_fifo_t* fifo, int count)
  __CPROVER_requires(PRE_wake(manager, fifo, count)) __CPROVER_ensures(POST_wake(__CPROVER_old(G), count, __CPROVER_return_value)) ASG;
void fiber_manager_wait_in_mpsc_queue_and_unlock(fiber_manager_t* manager, mpsc_fifo_t* fifo, fiber_mutex_t* mutex)
  __CPROVER_requires(PRE_parku(manager, fifo, mutex)) __CPROVER_ensures(POST_parku(__CPROVER_old(G))) ASG;
#else
fiber_manager_t* fiber_manager_get(void) { return &VM0; }
int fiber_mutex_lock(fiber_mutex_t* mutex) {
  VASSERT(PRE_mlock(mutex), "C: lock the internal mutex when idle / re-lock the caller's mutex after resuming");
  ghost_t o = G;
  if (mutex == &CV.internal_mutex) { G.mode = LOCKED; G.imx_locks += 1; } else { G.holds_user = 1; G.user_locks += 1; }
  havoc_env(); spec_snap(); VASSUME(POST_mlock(o, mutex, FIBER_SUCCESS)); return FIBER_SUCCESS;
}
int fiber_mutex_trylock(fiber_mutex_t* mutex) {
  VASSERT(PRE_mlock(mutex), "C: trylock the internal mutex when idle / the caller's mutex after resuming");
  ghost_t o = G; int ok = verif_bool();
  if (ok) { if (mutex == &CV.internal_mutex) { G.mode = LOCKED; G.imx_locks += 1; } else { G.holds_user = 1; G.user_locks += 1; } }
  havoc_env(); spec_snap(); VASSUME(POST_mtrylock(o, mutex, ok ? FIBER_SUCCESS : FIBER_ERROR)); return ok ? FIBER_SUCCESS : FIBER_ERROR;
}
int fiber_mutex_unlock(fiber_mutex_t* mutex) {
  VASSERT(PRE_munlock(mutex), "C: release the internal mutex only after the claim/undo is complete and the owed wake was issued");
  ghost_t o = G; if (G.mode == LOCKED) G.nobody += 1; G.mode = IDLE; G.imx_unlocks += 1; havoc_env(); spec_snap(); VASSUME(POST_munlock(o, FIBER_SUCCESS)); return FIBER_SUCCESS;
}
int fiber_manager_wake_from_mpsc_queue(fiber_manager_t* manager, mpsc_fifo_t* fifo, int count) {
  VASSERT(PRE_wake(manager, fifo, count), "C: wake exactly the claimed number of waiters, once");
  ghost_t o = G; G.owed = 0; G.wakes += 1; G.mode = RELEASED; havoc_env(); spec_snap(); VASSUME(POST_wake(o, count, count)); return count;
}
void fiber_manager_wait_in_mpsc_queue_and_unlock(fiber_manager_t* manager, mpsc_fifo_t* fifo, fiber_mutex_t* mutex) {
  VASSERT(PRE_parku(manager, fifo, mutex), "C: park-and-unlock only after registering, still holding the caller's mutex");
  ghost_t o = G; G.mode = RESUMED; G.holds_user = 0; G.parks += 1; havoc_env(); spec_snap(); VASSUME(POST_parku(o));
}
#endif
static void init_any(void) {
  CUR_WC = (long)verif_u64(); G.a.reg = (long)verif_u64(); G.a.uo = (long)verif_u64(); G.a.TR = (long)verif_u64(); G.mode = verif_int(); G.holds_user = verif_bool();
  G.owed = 0; G.wakes = G.parks = G.regs = G.claims = G.undos = G.imx_locks = G.imx_unlocks = G.user_locks = 0; G.obs = 0; G.obs_val = 0; G.nobody = 0; spec_snap();
}
void h_signal(void) { init_any(); VASSUME(PRE_sig()); int r = fiber_cond_signal(&CV);
  VASSERT(POST_sig(r, 0), "H: signal claims one registered waiter and wakes exactly it, or leaves the count as found"); VCANARY("signal can return"); }
void h_broadcast(void) { init_any(); VASSUME(PRE_sig()); int r = fiber_cond_broadcast(&CV);
  VASSERT(POST_sig(r, 1), "H: broadcast claims all registered waiters and wakes exactly them"); VCANARY("broadcast can return"); }
void h_wait(void) { init_any(); VASSUME(PRE_wait()); int r = fiber_cond_wait(&CV, &UM);
  VASSERT(POST_wait(r), "H: wait registers under the mutex, parks once, returns with the mutex re-acquired"); VCANARY("wait can return"); }
/* fiber_mutex_init by its contract (proved in C03's init group): free mutex with an empty queue, or FIBER_ERROR */
int fiber_mutex_init(fiber_mutex_t* m) {
  static mpsc_fifo_node_t N; m->counter = 1;
  if (verif_bool()) { m->waiters.head = 0; m->waiters.tail = 0; return FIBER_ERROR; }
  N.next = 0; m->waiters.head = &N; m->waiters.tail = &N; return FIBER_SUCCESS;
}
/* init: from ANY memory content (a lock placed in recycled memory) the initialiser establishes the state every proof above starts from */
void h_init(void) {
  static fiber_cond_t X; memset(&X, (int)verif_u64(), sizeof(X));
  int r = fiber_cond_init(&X);
  if (r == FIBER_SUCCESS) VASSERT(X.caller_mutex == 0 && X.waiter_count == 0 && (X.waiters.head != 0 && X.waiters.head == X.waiters.tail && X.waiters.head->next == 0) && X.internal_mutex.counter == 1 && (X.internal_mutex.waiters.head != 0 && X.internal_mutex.waiters.head == X.internal_mutex.waiters.tail && X.internal_mutex.waiters.head->next == 0),
                                  "H: C05 init: no caller mutex bound, no waiters counted, empty wait queue, free internal mutex, whatever the memory held");
  else VASSERT(r == FIBER_ERROR, "H: C05 init reports an allocation failure as FIBER_ERROR");
  VCANARY("init can return");
}
