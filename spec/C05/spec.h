/* C05 — condition variable.  Shared predicates (cond.c, lemmas.c).
 * Shared  wc = cond->waiter_count
 * Ghost   reg     waiters registered (wc incremented) and not yet claimed by a signal/broadcast
 *         uo      another fiber is inside a signal that found nobody: it has decremented wc to reg-1 and will undo (0/1)
 *         TR      claimed waiters not yet resumed
 *         me ∈ {IDLE, LOCKED (holds the internal mutex), CLAIMED (owes wake(n)), UNDO (owes the +1), RELEASED (all done, still
 *               holds the internal mutex), REGISTERED, RESUMED}
 * INV     wc = reg − uo − [me = UNDO];  0 <= reg;  uo ∈ {0,1};  I hold the internal mutex ⇒ uo = 0
 *         me = REGISTERED ⇒ reg + TR >= 1
 * Actions REGISTER (wait): wc++, reg++            — before the caller's mutex is released
 *         CLAIM1 (signal, under the internal mutex, wc >= 1): wc--, reg--, TR++, owes exactly one wake(1)
 *         MISS/UNDO (signal, wc = 0): wc-- then wc++; reg untouched
 *         CLAIMALL (broadcast): k := wc = reg; wc := 0; reg := 0; TR += k; owes exactly one wake(k) if k > 0
 */
#ifndef C05_SPEC_H
#define C05_SPEC_H
#include "verif_rt.h"
#define IDLE 0
#define LOCKED 1
#define CLAIMED 2
#define UNDO 3
#define RELEASED 4
#define REGISTERED 5
#define RESUMED 6
#define CAP 0x3FFFFFFFL
typedef struct { long reg, uo, TR; } cv_abs_t;
#define HOLDS_IMX(mode) ((mode) >= LOCKED && (mode) <= RELEASED)
#define CV_INV(wc, reg, uo, TR, mode)                                                            \
  ((reg) >= 0 && (reg) <= CAP && (TR) >= 0 && (TR) <= CAP && ((uo) == 0 || (uo) == 1) && (mode) >= IDLE && (mode) <= RESUMED && \
   (wc) == (reg) - (uo) - ((mode) == UNDO ? 1 : 0) && (!HOLDS_IMX(mode) || (uo) == 0) && ((mode) != REGISTERED || (reg) + (TR) >= 1))
static int cv_inv(long wc, cv_abs_t a, int mode) { return CV_INV(wc, a.reg, a.uo, a.TR, mode); }
static int cv_rely(int mode, long wc, cv_abs_t a, long wc2, cv_abs_t a2) {
  /* while I hold the internal mutex nobody else claims: registrations only */
  if (HOLDS_IMX(mode) && !(a2.reg >= a.reg && a2.TR <= a.TR)) return 0;
  return cv_inv(wc2, a2, mode);
}
#endif
