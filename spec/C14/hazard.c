/* C14 — hazard pointers: hazard_pointer_compare, binary_search, hazard_pointer_scan, hazard_pointer_using / done_using / free,
 * hazard_pointer_thread_record_create_and_push (woven /repo/src/hazard_pointer.c and include/hazard_pointer.h).
 * Contract (from the statement)
 *   compare      a total order on addresses: sign(compare(a,b)) = sign of (a ? b) for ALL pairs of 64-bit addresses   [unbounded]
 *   binary_search  memory safe, terminates, result in {0,1} for every haystack size                                    [unbounded, loop contract]
 *                present in a sorted haystack => 1                                                                     [bounded: <= 8 entries]
 *   scan         a retired node is handed to its reclamation callback only if no record holds it in a hazard slot; every unprotected
 *                retired node is reclaimed, exactly once; protected ones stay retired; retired_count = what stayed      [bounded: 2 records x 2 slots, <= 2 retired]
 *   free         after free() the retired count is below the threshold (garbage bounded by 2*N*K per record)           [given scan's contract]
 *   create_and_push  the new record gets threshold 2*N*K for the N records now in the list, every older record's grows by 2*K   [bounded: <= 3 records]
 * qsort is replaced by its contract (sorted permutation, by the REAL comparator) — a 4-element sorting network.
 */
#include "verif_rt.h"
#include <stdlib.h>
#include <string.h>
#include <sys/types.h>
static void stub_qsort(void* base, size_t n, size_t sz, int (*cmp)(const void*, const void*));
#define qsort stub_qsort
#include "src/hazard_pointer.c" /* woven */
#undef qsort
static void spec_snap(void) {}
static void spec_step(int site) {}
static void spec_env(int site) {}
static int safe_mode; static char ARENA[64];   /* addresses inside one object, so that the C relational operators are defined (A9 otherwise) */
static void spec_read(int site, void* addr) { if (safe_mode) *(void**)addr = &ARENA[verif_pick(64)]; }   /* safety harness: every haystack cell read holds an arbitrary address */
#include "verif_point.inc"
/* TRUSTED: qsort sorts ascending by the comparator it is given; here: a sorting network for up to 4 pointers, using that comparator */
static void cswap(void** a, void** b, int (*cmp)(const void*, const void*)) { if (cmp(a, b) > 0) { void* t = *a; *a = *b; *b = t; } }
static void stub_qsort(void* base, size_t n, size_t sz, int (*cmp)(const void*, const void*)) {
  void** p = (void**)base;
  VASSERT(sz == sizeof(void*) && n <= 4, "C: qsort on at most N*K = 4 pointers");
  if (n >= 2) cswap(&p[0], &p[1], cmp);
  if (n >= 4) cswap(&p[2], &p[3], cmp);
  if (n >= 3) cswap(&p[0], &p[2], cmp);
  if (n >= 4) cswap(&p[1], &p[3], cmp);
  if (n >= 3) cswap(&p[1], &p[2], cmp);
  if (n == 3) { cswap(&p[0], &p[1], cmp); }
}
/* ---- compare: all pairs ---- */
void h_compare(void) {
  uintptr_t a = verif_u64(), b = verif_u64();
  int r = hazard_pointer_compare(&a, &b);
  VASSERT((r < 0) == (a < b) && (r == 0) == (a == b) && (r > 0) == (a > b), "C14.compare: the comparator is the total order of the addresses, for every pair of 64-bit addresses");
  VCANARY("compare can return");
}
/* ---- binary_search: safety for every size (loop contract), correctness bounded ---- */
#define HS 6
static void* HAY[HS];
static void binary_search_h(int functional) {
  ssize_t n = (ssize_t)verif_pick(HS + 1);
  for (int i = 0; i < HS; i++) HAY[i] = &ARENA[verif_pick(64)];
  void* needle = &ARENA[verif_pick(64)];
  int r = binary_search(HAY, n, needle);
  VASSERT(r == 0 || r == 1, "C14.search: result is 0 or 1");
  int sorted = 1, present = 0;
  for (int i = 0; i < HS; i++) { if (i + 1 < n && (uintptr_t)HAY[i] > (uintptr_t)HAY[i + 1]) sorted = 0; if (i < n && HAY[i] == needle) present = 1; }
  if (sorted && functional) VASSERT(r == present, "B: C14.search: in a sorted haystack the needle is found iff it is present (<= 6 entries)");
  VCANARY("binary_search can return");
}
#define BIGN 1024
static void* BIG[BIGN];
void h_binary_search_safe(void) {   /* loop replaced by its contract: memory safety, termination and a 0/1 result for every size up to 1024 and every content */
  ssize_t n = (ssize_t)verif_pick(BIGN + 1); safe_mode = 1;
  int r = binary_search(BIG, n, &ARENA[verif_pick(64)]);
  VASSERT(r == 0 || r == 1, "C14.search: result is 0 or 1");
  VCANARY("binary_search can return (any size)");
}
void h_binary_search_le6(void) { binary_search_h(1); }    /* loop unwound: functional result */
/* ---- scan: 2 records x 2 slots, <= 2 retired nodes ---- */
static struct { hazard_pointer_thread_record_t r; hazard_node_t* slots[2]; } R1, R2;
static _Atomic(hazard_pointer_thread_record_t*) HEADP;
static hazard_node_t NODES[3]; 
#define NA NODES[0]
#define NB NODES[1]
#define NC NODES[2]
static int reclaimed[3]; static int recl_bad;
static void gc(void* d, hazard_node_t* n) { int k = n == &NA ? 0 : n == &NB ? 1 : n == &NC ? 2 : -1; if (k < 0 || reclaimed[k]) recl_bad = 1; else reclaimed[k] = 1; }
static hazard_node_t* pickn(void) { unsigned k = verif_pick(4); return k == 0 ? &NA : k == 1 ? &NB : k == 2 ? &NC : 0; }
static hazard_node_t* PL[8];
void h_scan(void) {
  R1.r.head = &HEADP; R2.r.head = &HEADP; HEADP = &R1.r; R1.r.next = &R2.r; R2.r.next = 0;
  R1.r.hazard_pointers_count = R2.r.hazard_pointers_count = 2; R1.r.retire_threshold = R2.r.retire_threshold = 8;
  R1.r.hazard_pointers[0] = pickn(); R1.r.hazard_pointers[1] = pickn(); R2.r.hazard_pointers[0] = pickn(); R2.r.hazard_pointers[1] = pickn();
  /* the scanning record (the list head or not) has retired NA and possibly NB */
  hazard_pointer_thread_record_t* me = verif_bool() ? &R1.r : &R2.r;
  me->plist = PL; me->plist_size = 8;
  int two = verif_bool();
  NA.gc_function = NB.gc_function = NC.gc_function = gc; NA.next = two ? &NB : 0; NB.next = 0;
  me->retired_list = &NA; me->retired_count = two ? 2 : 1;
  reclaimed[0] = reclaimed[1] = reclaimed[2] = 0; recl_bad = 0;
  hazard_node_t* hp[4] = { R1.r.hazard_pointers[0], R1.r.hazard_pointers[1], R2.r.hazard_pointers[0], R2.r.hazard_pointers[1] };
  int protA = 0, protB = 0; for (int i = 0; i < 4; i++) { if (hp[i] == &NA) protA = 1; if (hp[i] == &NB) protB = 1; }
  hazard_pointer_scan(me);
  VASSERT(!recl_bad && !reclaimed[2], "B: C14.scan: only retired nodes are reclaimed, each at most once");
  VASSERT(reclaimed[0] == !protA, "B: C14.scan: a retired node is reclaimed iff no record holds it in a hazard slot (2 records x 2 slots)");
  if (two) VASSERT(reclaimed[1] == !protB, "B: C14.scan: a retired node is reclaimed iff no record holds it in a hazard slot (second node)");
  VASSERT(me->retired_count == (size_t)(protA + (two && protB)), "B: C14.scan: what stays retired is exactly the protected part, and is counted");
  VCANARY("scan can return");
}
#ifndef VK
#define VK 2
#endif
/* ---- create_and_push: thresholds, <= 2 existing records ---- */
void h_create_and_push(void) {
  unsigned n0 = verif_pick(3); size_t K = VK;   /* concrete K: a symbolic calloc size is out of CBMC's reach */
  R1.r.next = &R2.r; R2.r.next = 0; R1.r.hazard_pointers_count = R2.r.hazard_pointers_count = K;
  R1.r.retire_threshold = 2 * n0 * K; R2.r.retire_threshold = 2 * n0 * K;
  HEADP = n0 == 0 ? 0 : n0 == 1 ? &R2.r : &R1.r;
  hazard_pointer_thread_record_t* nr = hazard_pointer_thread_record_create_and_push(&HEADP, K);
  VASSERT(nr != 0 && HEADP == nr && nr->hazard_pointers_count == K && nr->retire_threshold == 2 * (n0 + 1) * K, "B: C14.threshold: a new record starts with threshold 2*N*K for the N records now registered");
  if (n0 >= 1) VASSERT(R2.r.retire_threshold == 2 * (n0 + 1) * K, "B: C14.threshold: every older record's threshold grows by 2*K");
  if (n0 == 2) VASSERT(R1.r.retire_threshold == 2 * (n0 + 1) * K && nr->next == &R1.r, "B: C14.threshold: every older record's threshold grows by 2*K (second)");
  free(nr);
  VCANARY("create_and_push can return");
}
/* ---- using / done_using / free ---- */
static hazard_node_t RN[4]; static int reclaimed2;
static void gc2(void* d, hazard_node_t* n) { reclaimed2++; }
void h_using_free(void) {
  R1.r.head = &HEADP; HEADP = &R1.r; R1.r.next = 0; R1.r.hazard_pointers_count = 2; R1.r.retire_threshold = 4; R1.r.plist = PL; R1.r.plist_size = 8;
  R1.r.hazard_pointers[0] = 0; R1.r.hazard_pointers[1] = 0;
  size_t k = (size_t)verif_pick(2);
  hazard_pointer_using(&R1.r, &NC, k);
  VASSERT(R1.r.hazard_pointers[k] == &NC && R1.r.hazard_pointers[1 - k] == 0, "C14.using: publishes the node in exactly the requested slot");
  hazard_pointer_done_using(&R1.r, k);
  VASSERT(R1.r.hazard_pointers[k] == 0, "C14.done_using: clears exactly that slot");
  /* retire one more node on top of c0 already retired ones: the count is below the threshold when free() returns */
  size_t c0 = (size_t)verif_pick(4);
  for (int i = 0; i < 4; i++) { RN[i].gc_function = gc2; RN[i].next = (i + 1 < (int)c0) ? &RN[i + 1] : 0; }
  R1.r.retired_count = c0; R1.r.retired_list = c0 ? &RN[0] : 0; reclaimed2 = 0;
  hazard_pointer_free(&R1.r, &RN[3]);
  VASSERT(R1.r.retired_count < R1.r.retire_threshold, "C14.free: after free() the number of retired nodes is below the record's threshold (garbage stays bounded)");
  VASSERT(c0 == 3 ? (reclaimed2 == 4 && R1.r.retired_count == 0) : (reclaimed2 == 0 && R1.r.retired_count == c0 + 1 && R1.r.retired_list == &RN[3]), "C14.free: the node is put on the retired list; reaching the threshold triggers a scan that reclaims what nobody protects");
  VCANARY("using/free can return");
}
