import re, os
WEAVE = [dict(file='src/hazard_pointer.c', fns=['hazard_pointer_compare', 'binary_search', 'hazard_pointer_scan', 'hazard_pointer_thread_record_create_and_push'], loops='loops.json', split_rmw=False),
         dict(file='include/hazard_pointer.h', parse='src/hazard_pointer.c', fns=['hazard_pointer_using', 'hazard_pointer_done_using', 'hazard_pointer_free'], split_rmw=False),
         dict(file='include/mpmc_fifo.h', parse='test/test_mpmc_fifo.c', fns=['mpmc_fifo_push', 'mpmc_fifo_trypop'], loops='../C13/loops.json')]
NOPTR = ['--bounds-check', '--signed-overflow-check', '--div-by-zero-check', '--pointer-check']
GROUPS = [
    dict(name='compare', tu='hazard.c', harness='h_compare', mode='H', functions=['hazard_pointer_compare'], unwind=2, exact_unwind=True),
    dict(name='binary_search_safety', tu='hazard.c', harness='h_binary_search_safe', mode='H', loop_contracts=True, functions=['binary_search'], unwind=10),
    dict(name='binary_search_le6', tu='hazard.c', harness='h_binary_search_le6', mode='H', functions=['binary_search'], unwind=8,
         bounded=True, bound='haystack <= 6 entries: found iff present when sorted'),
    dict(name='scan_2x2', tu='hazard.c', harness='h_scan', mode='H', functions=['hazard_pointer_scan', 'binary_search'], unwind=6, bounded=True,
         bound='2 records x 2 hazard slots, <= 2 retired nodes, every protection pattern', timeout=600),
] + [
    dict(name='create_and_push_le3_K%d' % k, tu='hazard.c', harness='h_create_and_push', mode='H', functions=['hazard_pointer_thread_record_create_and_push'], unwind=5, bounded=True,
         defs=['-DVK=%d' % k], cbmc_flags=['--no-malloc-may-fail'], bound='joining a list of <= 2 records, K = %d slots' % k) for k in (1, 2, 3)] + [
    # the structure built on hazard pointers: no reclaimed node is dereferenced (obligations 'O: C14 ...'; spec shared with C13)
    dict(name='fifo_trypop_protection', tu='../C13/fifo.c', harness='h_trypop', mode='H', loop_contracts=True, defs=['-DVERIF_LOOP_FLAG'], functions=['mpmc_fifo_trypop', 'hazard_pointer_using', 'hazard_pointer_done_using'], unwind=6, exact_unwind=True, timeout=900),
    dict(name='fifo_push_protection', tu='../C13/fifo.c', harness='h_push', mode='H', loop_contracts=True, defs=['-DVERIF_LOOP_FLAG'], functions=['mpmc_fifo_push', 'hazard_pointer_using', 'hazard_pointer_done_using'], unwind=6, exact_unwind=True, timeout=900),
    dict(name='lemmas', tu='lemmas.c', kind='lemmas', harness='', no_native='pure lemma'),
    dict(name='using_free', tu='hazard.c', harness='h_using_free', mode='H', functions=['hazard_pointer_using', 'hazard_pointer_done_using', 'hazard_pointer_free'], unwind=6, bounded=True,
         bound='one record, 2 slots, threshold 4'),
]
def static_facts(repo, scratch):
    src = open(os.path.join(repo, 'include/hazard_pointer.h')).read()
    m = re.search(r'static inline void hazard_pointer_using\(.*?\n\}', src, re.S)
    body = m.group(0) if m else ''
    i, j = body.find('hazard_pointers[n] = node'), body.find('store_load_barrier()')
    return [dict(name='using-store-load-barrier', ok=(i >= 0 and j > i), text='hazard_pointer_using publishes the pointer and then issues a store-load barrier (the SC proof depends on the publication being visible before the validating re-read; x86-TSO needs the fence)')]
TRUSTED = ['qsort: sorted permutation by the comparator it is given (TRUSTED; replaced by a sorting network that uses the real comparator)']
ASSUMPTIONS = ['calloc succeeds (create_and_push does not check its result; --no-malloc-may-fail)', 'A9 relational comparison of unrelated pointers is a total order (flat address space); CBMC reports it as undefined and is told not to here only for binary_search',
               'list-shaped clauses (record list, retired list) are bounded stand-ins, labelled; the safety interplay with the users of hazard pointers (publish, validate, retire) is the rely of C13']
