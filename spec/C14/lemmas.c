/* C14 — protocol lemma (abstract, loop-free, all states): a node protected by a hazard pointer that was published and then VALIDATED while the node
 * was still reachable is never reclaimed while the protection lasts.  This is the rely the users of the API are verified against (spec/C13/fifo.c:
 * "a validated slot is honoured by every later scan"); the function-level groups tie the code to the actions used here:
 *   protector   publish (hazard_pointer_using: store, then the full fence — static fact), validate = re-read the structure and find the node still
 *               reachable (mpmc_fifo_trypop/push), use only while validated (obligation O: in fifo.c), clear / overwrite the slot ends it;
 *   structure   unlink, then retire (hazard_pointer_free is called only on the node the caller's own CAS unlinked: fifo.c G:);
 *   scanner     a scan starts only after the retire (hazard_pointer_free: push on the retired list, then scan), reads every slot of every record
 *               (scan_2x2), reclaims exactly the retired nodes it did not see (scan_2x2), keeps the others retired.
 * State of one observed node X and one observed slot: reach, retired, reclaimed, hp (slot holds X), val (validated), use, scan, seen.
 */
#include "verif_rt.h"
enum { S_IDLE, S_STARTED, S_READ };
typedef struct { unsigned reach, retired, reclaimed, hp, val, use, scan, seen; } st_t;
static int inv(st_t s) {
  return s.reach <= 1 && s.retired <= 1 && s.reclaimed <= 1 && s.hp <= 1 && s.val <= 1 && s.use <= 1 && s.scan <= S_READ && s.seen <= 1 &&
         (!s.val || s.hp) && (!s.use || s.val) && (!s.retired || !s.reach) && (s.scan == S_IDLE || (s.retired && !s.reclaimed)) && (!s.reclaimed || s.retired) &&
         (!(s.scan == S_READ && s.val) || s.seen) &&      /* KEY: a protection validated before the unlink is in every later snapshot */
         !(s.reclaimed && s.val);                         /* PROPERTY */
}
static int act(int a, st_t* s) {
  switch (a) {
    case 0: if (s->use) return 0; s->hp = 1; s->val = 0; return 1;                                           /* publish (overwrites whatever the slot held) */
    case 1: if (!(s->hp && s->reach)) return 0; s->val = 1; return 1;                                        /* validate: re-read finds X still reachable */
    case 2: if (!s->val) return 0; s->use = 1; return 1;                                                     /* dereference */
    case 3: s->use = 0; return 1;
    case 4: if (s->use) return 0; s->hp = 0; s->val = 0; return 1;                                           /* clear the slot */
    case 5: if (!s->reach) return 0; s->reach = 0; return 1;                                                 /* unlink */
    case 6: if (s->reach || s->retired) return 0; s->retired = 1; return 1;                                  /* retire (after the unlink, once) */
    case 7: if (!(s->retired && !s->reclaimed && s->scan == S_IDLE)) return 0; s->scan = S_STARTED; return 1; /* scan starts after the retire */
    case 8: if (s->scan != S_STARTED) return 0; s->seen = s->hp; s->scan = S_READ; return 1;                 /* snapshot of the slot */
    case 9: if (s->scan != S_READ) return 0; if (!s->seen) s->reclaimed = 1; s->scan = S_IDLE; return 1;     /* reclaim iff not seen */
    case 10: if (!(s->reclaimed && !s->use)) return 0; s->reach = 1; s->retired = 0; s->reclaimed = 0; s->seen = 0; return 1;  /* the memory is reused: a new incarnation is linked in */
  }
  return 0;
}
#define ANYST st_t s; s.reach = verif_u32(); s.retired = verif_u32(); s.reclaimed = verif_u32(); s.hp = verif_u32(); s.val = verif_u32(); s.use = verif_u32(); s.scan = verif_u32(); s.seen = verif_u32();
void lemma_L0_initial(void) { st_t s = {0}; s.reach = 1; VASSERT(inv(s), "L: L0 a linked, unprotected node satisfies the invariant"); VCANARY("L0 reachable"); }
void lemma_L1_steps_preserve_the_invariant(void) {
  ANYST VASSUME(inv(s));
  if (0) {}
  int a = (int)verif_pick(11); VASSUME(act(a, &s));
  VASSERT(inv(s), "L: L1 publish / validate / use / clear / unlink / retire / scan / reclaim / reuse keep: validated before the unlink => seen by every later scan => not reclaimed while protected");
  VCANARY("L1 premises satisfiable");
}
void lemma_L4_no_use_of_a_reclaimed_node(void) {
  ANYST VASSUME(inv(s));
  VASSERT(!(s.use && s.reclaimed), "L: L4 a node in use (dereferenced under a validated hazard pointer) is not reclaimed");
  VCANARY("L4 premises satisfiable");
}
