/* C02 — the Chase-Lev work-stealing deque: wsd_work_stealing_deque_push_bottom / pop_bottom / steal, wsd_circular_array_grow / create / get / put
 * (woven /repo/src/work_stealing_deque.c and include/work_stealing_deque.h).
 *
 * Abstract state   the entries with index in [top, bottom); entry i lives in current_array[i mod size].  A is an arbitrary observed index and
 *                  vA the value that was pushed as entry A (ghost), so every clause about "each entry" is checked for all indices at once.
 * INV(A)           top <= A < bottom  ==>  current_array[A] == vA
 * Thieves (rely of the owner, guarantee of steal)   a thief moves top only t -> t+1 by a CAS, where t is the top value it read FIRST and
 *                  only after it THEN read a bottom value > t.  Seen from the owner: top can move from t only if some bottom value > t has been
 *                  visible while top was t (ghost hb = the largest bottom published since top last changed); nothing else is written by thieves.
 * Owner (rely of steal, guarantee of push/pop)   only the owner writes bottom, the array pointer and array slots;
 *   push   stores the entry in the CURRENT array before publishing bottom+1; a bigger array is published only when it already holds every
 *          live entry; no array that was ever published is freed or written again (a stale thief may still be reading it); no live entry
 *          is overwritten.
 *   pop    takes entry b = bottom-1: without a CAS only when no thief can take b any more, otherwise by winning the CAS on top; EMPTY/ABORT
 *          only when every entry that was queued has been taken by thieves; never leaves an entry outside [top, bottom) untaken.
 *   steal  returns the value of entry t iff its CAS wins: the slot is read from the array pointer read AFTER bottom, BEFORE the CAS.
 * Arrays have a concrete size here (2^KLOG growing to 2^(KLOG+1); bounded, labelled): a symbolic allocation size is out of CBMC's reach.  The
 * code is size-generic (mask arithmetic only).  Indices, counters and A are unbounded 64-bit.
 */
#include "verif_rt.h"
#include <stdlib.h>
#include <stddef.h>
#ifndef KLOG
#define KLOG 1
#endif
#define ROLE_PUSH 1
#define ROLE_POP 2
#define ROLE_STEAL 3
typedef struct {
  int role; int64_t A; void* vA; int knowA; int64_t B; int Bset;
  int64_t hb;                          /* owner: largest bottom published since top last changed */
  int64_t t0, b0; void* p;             /* state at the call; pushed value */
  int dec, cas_taken, frees, mallocs, bad; int64_t cas_idx;
  /* steal */ int have_t, have_b, have_a, slot_ok, cas_won, reads_after_cas; int64_t t, b; void* a; void* slotv;
  /* snapshot */ int64_t lT, lB; void* lArr; void* lcA; void* lcMine;
} ghost_t;
ghost_t G;
static void* stub_malloc(size_t n);
static void stub_free(void* p);
#define malloc(n) stub_malloc(n)
#define free(p) stub_free(p)
#include "work_stealing_deque.h" /* woven: get / put */
/* the two arrays: SMALL (2^KLOG slots) is the deque's array at the call; LARGE (2^(KLOG+1)) is what create() hands out when the deque grows */
#ifndef GENERIC
static struct { wsd_circular_array_t a; wsd_circular_array_elem_t cells[1 << KLOG]; } SMALL;
static struct { wsd_circular_array_t a; wsd_circular_array_elem_t cells[2 << KLOG]; } LARGE;
#define GROW_SHAPE(n) ((n)->size_minus_one == (2 << KLOG) - 1 && (n)->size == (2u << KLOG) && (n)->log_size == KLOG + 1)
#define GROW_COPIED(n, o) ((n)->data[G.A & (n)->size_minus_one].data == (o)->data[G.A & (o)->size_minus_one].data)
#define GROW_CELLS
#else
/* GENERIC: every power-of-two size.  wsd_circular_array_get / put / create are used BY CONTRACT (get/put: the cell `i & size_minus_one`; create:
   a fresh array of 2^log_size cells) and the array memory is the two cells that matter per array — the one of the observed index A and the one
   of the operation's own index B — plus "some other cell" (reads give any value, writes are lost: nothing is claimed about those).  The
   concrete-size groups check the real get / put / create against the same shape. */
static struct { wsd_circular_array_t a; } SMALL, LARGE;
static void* cA[2]; static void* cB[2]; static void* cJunk;
#define GROW_SHAPE(n) ((n)->size_minus_one == 2 * SMALL.a.size_minus_one + 1 && (n)->size == 2 * SMALL.a.size && (n)->log_size == SMALL.a.log_size + 1 && SMALL.a.size_minus_one >= 1 && SMALL.a.size_minus_one < (1ll << 41) && SMALL.a.size == (size_t)SMALL.a.size_minus_one + 1 && cA[0] == __CPROVER_loop_entry(cA[0]) && cB[0] == __CPROVER_loop_entry(cB[0]))
#define GROW_COPIED(n, o) (cA[1] == cA[0])
#define GROW_CELLS cA, cB, cJunk,
static void* stub_get(wsd_circular_array_t* a, int64_t i);
static void stub_put(wsd_circular_array_t* a, int64_t i, void* p);
#define wsd_circular_array_get(a, i) stub_get((a), (i))
#define wsd_circular_array_put(a, i, p) stub_put((a), (i), (p))
#endif
static wsd_circular_array_t OLDER;
static wsd_circular_array_t* stub_wsd_circular_array_create(size_t log_size);
/* (recursive in /repo; no operation of the deque may release an array: any call is counted as a free) */
static void stub_wsd_circular_array_destroy(wsd_circular_array_t* a) { G.frees++; }
static wsd_work_stealing_deque_t D;
#define TOP (*(int64_t*)&D.top)
#define BOT (*(int64_t*)&D.bottom)
#define ARR (*(wsd_circular_array_t**)&D.underlying_array)
#include "src/work_stealing_deque.c" /* woven */
#undef malloc
#undef free
static wsd_circular_array_t* canon(void* p) { return p == (void*)&SMALL.a ? &SMALL.a : p == (void*)&LARGE.a ? &LARGE.a : 0; }
#ifndef GENERIC
#define CELL(arr, i) ((arr)->data[(i) & (arr)->size_minus_one].data)
static wsd_circular_array_t* stub_wsd_circular_array_create(size_t log_size) { return wsd_circular_array_create(log_size); }
#else
static void** cell_ptr(wsd_circular_array_t* arr, int64_t i) {
  int x = (arr == &LARGE.a); int64_t m = arr->size_minus_one;
  if (((i ^ G.A) & m) == 0) return &cA[x];
  if (G.Bset && ((i ^ G.B) & m) == 0) return &cB[x];
  cJunk = (void*)verif_u64(); return &cJunk;
}
#define CELL(arr, i) (*cell_ptr((arr), (i)))
#endif
static int in_range(int64_t i) { return TOP <= i && i < BOT; }
static int inv_A(void) { wsd_circular_array_t* a = canon(ARR); return a != 0 && (!(in_range(G.A) && G.knowA) || CELL(a, G.A) == G.vA); }
static void* stub_malloc(size_t n) {
#ifdef GENERIC
  G.bad = 1; return 0;   /* (create is used by contract) */
#else
  if (G.mallocs || n != sizeof(wsd_circular_array_t) + (2u << KLOG) * sizeof(wsd_circular_array_elem_t)) G.bad = 1;
  G.mallocs++; return &LARGE.a;
#endif
}
static void stub_free(void* p) { G.frees++; }
static void spec_snap(void) {
  ARR = canon(ARR);
  G.lT = TOP; G.lB = BOT; G.lArr = ARR; G.lcA = ARR ? CELL(ARR, G.A) : 0;
}
static void spec_step(int site) {
  wsd_circular_array_t* arr = canon(ARR);
  if (G.role == ROLE_STEAL) {
    VASSERT(BOT == G.lB && ARR == G.lArr && (arr == 0 || CELL(arr, G.A) == G.lcA), "G: C02 a thief writes nothing but top");
    if (TOP != G.lT) {
      VASSERT(!G.cas_won && TOP == G.lT + 1 && G.have_t && G.lT == G.t, "G: C02 a thief moves top only by one CAS from the value it read first");
      VASSERT(G.have_b && G.b > G.t, "G: C02 a thief claims entry t only after it read top and THEN a bottom value > t");
      G.cas_won = 1;
    }
    return;
  }
  if (TOP != G.lT) {
    VASSERT(G.role == ROLE_POP && !G.cas_taken && TOP == G.lT + 1 && G.dec && G.lT == BOT, "G: C02 the owner moves top only in pop, by one CAS, for the last entry (top == bottom after the decrement)");
    G.cas_taken = 1; G.cas_idx = G.lT;
  }
  if (ARR != G.lArr) {
    VASSERT(G.role == ROLE_PUSH && arr == &LARGE.a && G.lArr == (void*)&SMALL.a, "G: C02 the array is replaced only by a push that grows it");
    VASSERT(inv_A(), "G: C02 a bigger array is published only when it already holds every live entry");
  } else if (arr && CELL(arr, G.A) != G.lcA) {
    VASSERT(G.role == ROLE_PUSH && !(G.lT <= G.A && G.A < G.lB && G.knowA), "G: C02 a live entry of the published array is never overwritten");
  }
  if (BOT != G.lB) {
    if (G.role == ROLE_PUSH) {
      VASSERT(BOT == G.lB + 1 && G.lB == G.b0, "G: C02 push publishes exactly one new entry (bottom + 1)");
      VASSERT(arr && CELL(arr, G.lB) == G.p, "G: C02 the entry is in the CURRENT array before bottom is published");
      if (G.A == G.lB) { G.vA = G.p; G.knowA = 1; }
      VASSERT(inv_A(), "G: C02 every live entry is in the current array when bottom is published");
    } else {
      if (!G.dec) { VASSERT(BOT == G.lB - 1, "G: C02 pop first reserves the last entry (bottom - 1)"); G.dec = 1; }
    }
    if (BOT > G.hb) G.hb = BOT;
  }
}
static void spec_env(int site) {
  if (G.role == ROLE_STEAL) {
    /* the owner pushes, pops and grows; other thieves take entries */
    int64_t T2 = (int64_t)verif_u64(), B2 = (int64_t)verif_u64();
    VASSUME(T2 >= TOP && T2 < (1ll << 61) && B2 >= -1 && B2 < (1ll << 61) && T2 <= B2 + 1);
    if (T2 != TOP && G.have_t && !G.cas_won) G.slot_ok = 0;                       /* entry t is gone: its slot may be reused */
    TOP = T2; BOT = B2; ARR = verif_bool() ? &SMALL.a : &LARGE.a;
    void* nv = (void*)verif_u64(); int nk = verif_bool(); VASSUME(nv != WSD_EMPTY && nv != WSD_ABORT); if (!in_range(G.A)) { G.vA = nv; G.knowA = nk; }   /* entries outside the deque are pushed anew */
    CELL(&SMALL.a, G.A) = (void*)verif_u64(); CELL(&LARGE.a, G.A) = (void*)verif_u64();
    if (G.have_a && G.have_t) { wsd_circular_array_t* a = canon(G.a); void* v = (void*)verif_u64(); if (G.slot_ok) v = G.slotv; CELL(a, G.t) = v; }
    VASSUME(inv_A());
    if (G.have_a && G.slot_ok && G.A == G.t) VASSUME(G.knowA && CELL(canon(G.a), G.t) == G.vA);
  } else {
    /* thieves: top moves from t only if a bottom value > t has been visible while top was t */
    int64_t T2 = (int64_t)verif_u64();
    VASSUME(T2 >= TOP);
    if (T2 != TOP) { VASSUME(TOP < G.hb && (T2 == TOP + 1 || T2 <= BOT)); TOP = T2; G.hb = BOT; }
  }
}
static void spec_read(int site, void* addr) {
  if (G.role != ROLE_STEAL) return;
#ifndef GENERIC
  if (G.cas_won && __CPROVER_same_object(addr, canon(G.a))) G.reads_after_cas = 1;
#endif
  if (addr == (void*)&D.top && !G.have_t) { G.have_t = 1; G.t = TOP;
#ifdef GENERIC
    VASSUME(G.B == G.t);   /* prophecy: the operation's own index was chosen (arbitrarily) up front */
#endif
  }
  else if (addr == (void*)&D.bottom && !G.have_b) { G.have_b = G.have_t; G.b = BOT; }
  else if (addr == (void*)&D.underlying_array && !G.have_a) {
    G.have_a = 1; G.a = ARR;
    /* INV instance: entry t is in the current array now if it is live now and I know it was live when I read bottom */
    if (G.have_t && G.have_b && TOP == G.t && G.b > G.t) { G.slot_ok = 1; G.slotv = CELL(canon(ARR), G.t); if (G.A == G.t) VASSUME(G.knowA && G.slotv == G.vA); }
  }
}
#include "verif_point.inc"
#ifdef GENERIC
/* contracts of the array accessors (interference point first, like every shared access of the real code) */
static void* stub_get(wsd_circular_array_t* a, int64_t i) {
  a = canon(a); if (!a) { G.bad = 1; return 0; }
  verif_point_at(-20, cell_ptr(a, i));
  if (G.role == ROLE_STEAL && G.cas_won) G.reads_after_cas = 1;
  return *cell_ptr(a, i);
}
static void stub_put(wsd_circular_array_t* a, int64_t i, void* p) {
  a = canon(a); if (!a) { G.bad = 1; return; }
  verif_point_at(-21, cell_ptr(a, i));
  *cell_ptr(a, i) = p;
}
static wsd_circular_array_t* stub_wsd_circular_array_create(size_t log_size) {
  if (G.mallocs || log_size != SMALL.a.log_size + 1) G.bad = 1;
  G.mallocs++;
  LARGE.a.log_size = log_size; LARGE.a.size = 2 * SMALL.a.size; LARGE.a.size_minus_one = 2 * SMALL.a.size_minus_one + 1; LARGE.a.prev = 0;
  cA[1] = (void*)verif_u64(); cB[1] = (void*)verif_u64();   /* fresh, uninitialised memory */
  return &LARGE.a;
}
#endif
static void init_any(int role) {
  G.role = role; G.A = (int64_t)verif_u64(); G.vA = (void*)verif_u64(); VASSUME(G.vA != WSD_EMPTY && G.vA != WSD_ABORT); G.knowA = 1; G.dec = G.cas_taken = G.frees = G.mallocs = G.bad = 0;
  G.have_t = G.have_b = G.have_a = G.slot_ok = G.cas_won = G.reads_after_cas = 0; G.a = 0;
#ifndef GENERIC
  SMALL.a.log_size = KLOG; SMALL.a.size = 1u << KLOG; SMALL.a.size_minus_one = (1 << KLOG) - 1; SMALL.a.prev = verif_bool() ? &OLDER : 0;   /* the deque may have grown before: an older array, kept alive for stale thieves */
  LARGE.a.log_size = KLOG + 1; LARGE.a.size = 2u << KLOG; LARGE.a.size_minus_one = (2 << KLOG) - 1; LARGE.a.prev = &SMALL.a;
#else
  { unsigned lg = verif_pick(40) + 1;   /* 2^1 .. 2^40 cells */
    SMALL.a.log_size = lg; SMALL.a.size = (size_t)1 << lg; SMALL.a.size_minus_one = ((int64_t)1 << lg) - 1; SMALL.a.prev = verif_bool() ? &OLDER : 0;
    LARGE.a.log_size = lg + 1; LARGE.a.size = (size_t)2 << lg; LARGE.a.size_minus_one = ((int64_t)2 << lg) - 1; LARGE.a.prev = &SMALL.a;
    cA[0] = (void*)verif_u64(); cA[1] = (void*)verif_u64(); cB[0] = (void*)verif_u64(); cB[1] = (void*)verif_u64(); G.B = (int64_t)verif_u64(); G.Bset = 0; }
#endif
  int64_t T = (int64_t)verif_u64(), B = (int64_t)verif_u64();
  ARR = (role == ROLE_PUSH || verif_bool()) ? &SMALL.a : &LARGE.a;
  VASSUME(T >= 0 && T <= B && B < (1ll << 60) && B - T <= (int64_t)ARR->size - 1);
  TOP = T; BOT = B; G.t0 = T; G.b0 = B;
  G.hb = (int64_t)verif_u64(); VASSUME(G.hb >= B && G.hb < (1ll << 61));
  CELL(&SMALL.a, G.A) = (void*)verif_u64(); CELL(&LARGE.a, G.A) = (void*)verif_u64();
  VASSUME(inv_A());
  G.p = (void*)verif_u64(); VASSUME(G.p != WSD_EMPTY && G.p != WSD_ABORT);
#ifdef GENERIC
  if (role == ROLE_PUSH) { G.B = B; G.Bset = 1; } else if (role == ROLE_POP) { G.B = B - 1; G.Bset = 1; } else { G.Bset = 1; }
#endif
  spec_snap();
}
static int was_in(void) { return G.t0 <= G.A && G.A < G.b0; }
void h_push(void) {
  init_any(ROLE_PUSH);
  wsd_work_stealing_deque_push_bottom(&D, G.p); verif_sync(-1);
  VASSERT(!G.bad && G.frees == 0, "H: C02 push frees nothing: every array ever published stays valid for stale thieves");
  VASSERT(BOT == G.b0 + 1 && inv_A() && (G.A != G.b0 || (G.knowA && G.vA == G.p)), "H: C02 push appends exactly its entry; every entry that was queued is still queued or was taken by a thief");
  VCANARY("push can return");
}
/* the capacity clause on its own (no observed entry: the query is much smaller that way) */
void h_push_capacity(void) {
  init_any(ROLE_PUSH); G.knowA = 0;
  wsd_work_stealing_deque_push_bottom(&D, G.p); verif_sync(-1);
  VASSERT(!G.bad && canon(ARR) != 0 && BOT - TOP <= canon(ARR)->size_minus_one, "H: C02 push keeps one slot of the current array free (bottom - top <= size - 1): the slot of the next entry never aliases a live one");
  VCANARY("push (capacity) can return");
}
void h_pop(void) {
  init_any(ROLE_POP);
  void* r = wsd_work_stealing_deque_pop_bottom(&D); verif_sync(-1);
  int64_t b = G.b0 - 1;
  VASSERT(!G.bad && G.frees == 0 && inv_A(), "H: C02 pop leaves the queued entries intact");
  /* which way pop went is read off the ghost and the final bottom (a stored value is never one of the two sentinels: API contract) */
  if (G.cas_taken) {
    VASSERT(G.cas_idx == b && BOT == b + 1 && TOP >= b + 1 && (G.A != b || r == G.vA), "H: C02 pop won the last entry by its CAS and returns that entry's value");
  } else if (BOT == b) {
    VASSERT(G.b0 > G.t0 && (TOP < b || (TOP == b && G.hb <= b)), "H: C02 pop takes entry bottom-1 without a CAS only when no thief can take it (not now, not later)");
    VASSERT(G.A != b || r == G.vA, "H: C02 pop returns the value of the entry it took");
  } else {
    VASSERT((r == WSD_EMPTY || r == WSD_ABORT) && BOT <= TOP && (!was_in() || G.A < TOP), "H: C02 pop reports EMPTY/ABORT, and only when every queued entry has been taken by thieves; the deque is left empty, nothing is dropped");
  }
  int took = G.cas_taken || BOT == b;
  VASSERT(!was_in() || G.A < TOP || in_range(G.A) || (G.A == b && took), "H: C02 every entry that was queued is still queued, was taken by a thief, or is the one returned");
  VCANARY("pop can return");
}
void h_steal(void) {
  init_any(ROLE_STEAL);
  void* r = wsd_work_stealing_deque_steal(&D); verif_sync(-1);
  if (G.cas_won) { VASSERT(!G.reads_after_cas, "H: C02 the slot is read before the CAS that claims it");
                   VASSERT(G.A != G.t || r == G.vA, "H: C02 steal returns the value of exactly the entry it claimed"); }
  else { VASSERT(r == WSD_EMPTY || r == WSD_ABORT, "H: C02 steal returns a value only when its CAS won");
         if (r == WSD_EMPTY) VASSERT(G.have_t && G.have_b && G.b <= G.t, "H: C02 steal reports EMPTY only after seeing bottom <= top (top read first)"); }
  VCANARY("steal can return");
}
/* wsd_circular_array_grow: the copy loop (loop contract, observed index) */
void h_grow(void) {
  init_any(ROLE_PUSH);
  void* before = CELL(&SMALL.a, G.A);
#ifdef GENERIC
  G.Bset = 0;
#endif
  wsd_circular_array_t* n = wsd_circular_array_grow(&SMALL.a, G.t0, G.b0);
  VASSERT(!G.bad && G.frees == 0 && n == &LARGE.a && n->prev == &SMALL.a && n->size == 2 * SMALL.a.size && n->size_minus_one == (ssize_t)n->size - 1 && n->log_size == SMALL.a.log_size + 1, "H: C02 grow returns a fresh array of twice the size that keeps the old one alive (prev)");
  VASSERT(!(G.t0 <= G.A && G.A < G.b0) || CELL(n, G.A) == before, "H: C02 grow copies every live entry to the same index of the bigger array");
  VASSERT(CELL(&SMALL.a, G.A) == before, "H: C02 grow does not write the old array");
  VCANARY("grow can return");
}
