/* C02 — composition lemma (abstract, loop-free, all states), index level: every entry of the deque is handed out exactly once — to the owner or
 * to one thief — and none is dropped, from the per-function guarantees proved in deque.c.
 * State   top T, bottom B, hb (the largest bottom value visible since top last changed: the thief abstraction used in deque.c), the owner's
 *         progress through pop_bottom: pc in {IDLE, STORED, WILLTAKE, WILLCAS, EMPTYSEEN, CASWON, CASLOST} with its b and its t; stored = the owner
 *         has stored the decremented bottom and not finished (entry b is in limbo);  EB = B + stored: the entries are the indices in [T, EB).
 * Actions (each is what the function-level proof of that step allows)
 *   owner  PUBLISH (push: bottom+1, after storing the entry), POP_STORE, POP_READTOP, TAKE_NOCAS (the invariant implies the postcondition proved for
 *          pop in deque.c: no thief can take b, now or later: T < b, or T == b and hb <= b), POP_CAS, RESTORE_AFTER_CAS, RESTORE_EMPTY
 *   thief  STEAL: top t -> t+1 only if t < hb (steal's guarantee: it read top == t first, then a bottom value > t), taking index t
 * CLAIMS   every take hits an index in [T, EB); an index leaves [T, EB) only by being taken, by exactly one taker; [T, EB) never gains an index except
 *          by PUBLISH.
 */
#include "verif_rt.h"
enum { IDLE, STORED, WILLTAKE, WILLCAS, EMPTYSEEN, CASWON, CASLOST };
typedef struct { int64_t T, B, hb, b, t; unsigned pc, stored; } st_t;
#define EB(s) ((s).B + (int64_t)(s).stored)
static int inv(st_t s) {
  if (!(s.T >= 0 && s.B >= -1 && s.hb >= 0 && s.pc <= CASLOST && s.stored <= 1)) return 0;   /* (A6: no 64-bit wrap — the lemma is stated for indices below 2^40) */
  if (s.stored != (s.pc != IDLE)) return 0;
  if (s.hb < s.B) return 0;                                   /* hb is a maximum of published bottoms */
  if (s.pc == CASWON || s.pc == CASLOST) { return s.B == s.b && s.t == s.b && s.t >= 0 && s.T == s.b + 1 && s.hb <= s.T; }   /* the last entry is gone: nothing left to take */
  if (s.T > EB(s)) return 0;                                  /* K1 */
  if (s.T < s.hb && !(s.T < EB(s))) return 0;                 /* K: whatever a thief may still take is an entry */
  switch (s.pc) {
    case IDLE: return s.B >= 0;
    case STORED: return s.B == s.b && s.b >= -1;
    case WILLTAKE: return s.B == s.b && s.t < s.b && s.t <= s.T && s.t >= 0 && s.T <= s.b && (s.T < s.b || s.hb <= s.b);   /* thieves cannot get past b once bottom = b is stored and top < b was read */
    case WILLCAS: return s.B == s.b && s.t == s.b && s.t <= s.T && s.t >= 0;
    case EMPTYSEEN: return s.B == s.b && s.t > s.b && s.t == s.T;
  }
  return 0;
}
static int64_t take_idx; static int takes;   /* what the step handed out */
static int act(int a, st_t* s) {
  takes = 0; take_idx = -1;
  switch (a) {
    case 0: if (s->pc != IDLE) return 0; s->B++; if (s->B > s->hb) s->hb = s->B; return 1;                        /* PUBLISH */
    case 1: if (s->pc != IDLE) return 0; s->b = s->B - 1; s->B = s->b; s->stored = 1; s->pc = STORED; return 1;                              /* POP_STORE */
    case 2: if (s->pc != STORED) return 0; s->t = s->T; s->pc = s->t < s->b ? WILLTAKE : s->t == s->b ? WILLCAS : EMPTYSEEN; return 1;       /* POP_READTOP */
    case 3: if (s->pc != WILLTAKE) return 0;                                                                                                  /* TAKE_NOCAS: no guard needed — the invariant gives what deque.c proves at this point */
            takes = 1; take_idx = s->b; s->stored = 0; s->pc = IDLE; return 1;
    case 4: if (s->pc != WILLCAS) return 0; if (s->T == s->t) { takes = 1; take_idx = s->t; s->T++; s->hb = s->B; s->pc = CASWON; } else s->pc = CASLOST; return 1;  /* POP_CAS */
    case 5: if (s->pc != CASWON && s->pc != CASLOST) return 0; s->B = s->t + 1; s->stored = 0; if (s->B > s->hb) s->hb = s->B; s->pc = IDLE; return 1;             /* RESTORE_AFTER_CAS */
    case 6: if (s->pc != EMPTYSEEN) return 0; s->B = s->t; s->stored = 0; if (s->B > s->hb) s->hb = s->B; s->pc = IDLE; return 1;           /* RESTORE_EMPTY */
    case 7: if (!(s->T < s->hb)) return 0; takes = 1; take_idx = s->T; s->T++; s->hb = s->B; return 1;                                      /* STEAL */
  }
  return 0;
}
static int live(st_t s, int64_t x) { if (s.pc == CASWON || s.pc == CASLOST) return 0; return s.T <= x && x < EB(s); }
#define ANYST st_t s; s.T = (int64_t)verif_u64(); s.B = (int64_t)verif_u64(); s.hb = (int64_t)verif_u64(); s.b = (int64_t)verif_u64(); s.t = (int64_t)verif_u64(); s.pc = verif_u32(); s.stored = verif_u32();
void lemma_L0_initial(void) { st_t s = {0}; VASSERT(inv(s), "L: L0 the empty deque (top = bottom = 0) satisfies the invariant"); VCANARY("L0 reachable"); }
void lemma_L1_exactly_once(void) {
  ANYST
#define SM(v) ((v) > -(1ll << 40) && (v) < (1ll << 40))
  VASSUME(SM(s.T) && SM(s.B) && SM(s.hb) && SM(s.b) && SM(s.t)); VASSUME(inv(s));
  int64_t X = (int64_t)verif_u64(); st_t o = s;
  int a = (int)verif_pick(8); VASSUME(act(a, &s));
  VASSERT(inv(s), "L: L1 every step the function-level guarantees allow preserves the index-level invariant");
  if (takes) VASSERT(live(o, take_idx), "L: C02 every take (owner without CAS, owner by CAS, thief by CAS) hits an entry that is in the deque: no entry is handed out twice");
  if (live(o, X) && !live(s, X)) VASSERT(takes == 1 && take_idx == X, "L: C02 an entry leaves the deque only by being taken, by exactly one taker: no entry is dropped");
  if (!live(o, X) && live(s, X)) VASSERT(a == 0 && X == o.B, "L: C02 the deque gains an entry only by a push, at index bottom");
  VCANARY("L1 premises satisfiable");
}
