import re, os
WEAVE = [dict(file='src/work_stealing_deque.c', stub_calls={'wsd_circular_array_grow': ['wsd_circular_array_create', 'wsd_circular_array_destroy'], 'wsd_work_stealing_deque_push_bottom': ['wsd_circular_array_destroy'],
                          'wsd_work_stealing_deque_pop_bottom': ['wsd_circular_array_destroy'], 'wsd_work_stealing_deque_steal': ['wsd_circular_array_destroy']}, fns=['wsd_circular_array_create', 'wsd_circular_array_grow', 'wsd_work_stealing_deque_push_bottom', 'wsd_work_stealing_deque_pop_bottom', 'wsd_work_stealing_deque_steal'], loops='loops.json'),
         dict(file='src/fiber_scheduler_wsd.c', fns=['fiber_scheduler_load_balance'], loops='loops.json', split_rmw=False),
        dict(file='include/work_stealing_deque.h', parse='src/work_stealing_deque.c', fns=['wsd_circular_array_get', 'wsd_circular_array_put'])]
GROUPS = []
FN_ARR = ['wsd_circular_array_grow', 'wsd_circular_array_create', 'wsd_circular_array_get', 'wsd_circular_array_put']
for k in (1, 2):
    B = 'arrays of 2^%d slots growing to 2^%d (indices and the observed index unbounded)' % (k, k + 1)
    D = ['-DKLOG=%d' % k, '-DVERIF_LOOP_FLAG']
    T2 = (k > 1)   # the larger instance runs in the thorough tier only; so does the slowest group (push with the real accessors, ~2 min)
    GROUPS += [
        dict(name='grow_K%d' % k, tu='deque.c', harness='h_grow', mode='H', loop_contracts=True, defs=D, functions=FN_ARR, bounded=True, bound=B, thorough_only=T2),
        dict(name='push_K%d' % k, tu='deque.c', harness='h_push', mode='H', loop_contracts=True, defs=D, timeout=900, functions=['wsd_work_stealing_deque_push_bottom'] + FN_ARR, bounded=True, bound=B, thorough_only=True),
        dict(name='push_capacity_K%d' % k, tu='deque.c', harness='h_push_capacity', mode='H', loop_contracts=True, defs=D, timeout=900, functions=['wsd_work_stealing_deque_push_bottom'] + FN_ARR, bounded=True, bound=B, thorough_only=True),
        dict(name='pop_K%d' % k, tu='deque.c', harness='h_pop', mode='H', defs=D, functions=['wsd_work_stealing_deque_pop_bottom', 'wsd_circular_array_get'], bounded=True, bound=B, thorough_only=T2),
        dict(name='steal_K%d' % k, tu='deque.c', harness='h_steal', mode='H', defs=D, functions=['wsd_work_stealing_deque_steal', 'wsd_circular_array_get'], bounded=True, bound=B, thorough_only=T2),
    ]
GD = ['-DGENERIC', '-DVERIF_LOOP_FLAG']
GROUPS += [
    dict(name='grow_any_size', tu='deque.c', harness='h_grow', mode='H', loop_contracts=True, defs=GD, functions=['wsd_circular_array_grow']),
    dict(name='push_any_size', tu='deque.c', harness='h_push', mode='H', loop_contracts=True, defs=GD, functions=['wsd_work_stealing_deque_push_bottom', 'wsd_circular_array_grow'], timeout=900),
    dict(name='push_capacity_any_size', tu='deque.c', harness='h_push_capacity', mode='H', loop_contracts=True, defs=GD, cbmc_flags=['--sat-solver', 'cadical'], functions=['wsd_work_stealing_deque_push_bottom', 'wsd_circular_array_grow'], timeout=900),
    dict(name='pop_any_size', tu='deque.c', harness='h_pop', mode='H', defs=GD, functions=['wsd_work_stealing_deque_pop_bottom']),
    dict(name='steal_any_size', tu='deque.c', harness='h_steal', mode='H', defs=GD, functions=['wsd_work_stealing_deque_steal']),
]
GROUPS += [dict(name='load_balance_N%d' % n, tu='balance.c', harness='h_balance', mode='H', loop_contracts=True, defs=['-DNTHREADS=%d' % n, '-DVERIF_LOOP_FLAG'], functions=['fiber_scheduler_load_balance'],
                unwind=8, exact_unwind=True, bounded=True, bound='%d kernel threads (caller id symbolic; any registration state of the other threads; queue sizes symbolic)' % n, thorough_only=(n > 3)) for n in (1, 2, 3, 4)]
GROUPS += [dict(name='lemmas', tu='lemmas.c', kind='lemmas', harness='', no_native='pure lemma')]
def static_facts(repo, scratch):
    src = open(os.path.join(repo, 'src/work_stealing_deque.c')).read()
    m = re.search(r'void\* wsd_work_stealing_deque_pop_bottom\(.*?\n\}', src, re.S)
    body = m.group(0) if m else ''
    i = body.find('atomic_store_explicit(&d->bottom, b, memory_order_seq_cst)')
    j = body.find('atomic_load_explicit(&d->top, memory_order_seq_cst)')
    return [dict(name='pop-bottom-store-load-seq-cst', ok=(i >= 0 and j > i), text='pop_bottom stores bottom with memory_order_seq_cst and then loads top with memory_order_seq_cst (the SC proof depends on this store->load order; weaker orders let x86-TSO reorder them)')]
TRUSTED = ['malloc/free: malloc hands out the (fresh) bigger array; free is only counted (any free during push/pop/steal is a violation)']
ASSUMPTIONS = ['SC (A1); the one store->load pair that needs a fence on x86-TSO is pinned by a static fact', 'weak CAS modelled strong (A3)', 'one owner per deque (only the owning kernel thread pushes/pops: fiber_scheduler_wsd.c; checked in C10)', '64-bit indices do not wrap (A6)',
               'whole-runtime clause "when every kernel thread is idle no runnable fiber is queued" is a history property over all threads: not decided by per-function contracts (see DESIGN.md)']
# only the owning kernel thread pushes/pops its deques (anchor: fiber_manager.c): the functions that must re-fetch the per-thread manager after a
# call that can migrate the fiber, and the scheduler-level use of the deques (C10), run here as well
IMPORTS = [dict(prop='C01', groups=['yield_switch', 'maintenance', 'clear_or_wait', 'wake_from_mpsc', 'wake_from_mpmc', 'maintenance_migrating_unlock']), dict(prop='C10', groups=['schedule', 'next'])]
