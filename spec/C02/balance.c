/* C02 — stealing at the scheduler level: fiber_scheduler_load_balance (woven /repo/src/fiber_scheduler_wsd.c), deque operations by contract (deque.c).
 *   every steal is made on a deque of ANOTHER kernel thread (never on the caller's own two deques, never outside the queue table);
 *   every push_bottom is made on the caller's OWN schedule_from (only the owning kernel thread pushes/pops a deque: the owner precondition of the
 *   deque contracts);  a stolen fiber is pushed exactly once, at once (never dropped, never pushed twice); EMPTY / ABORT are never pushed;
 *   at most 50 fibers are moved per call.
 * One group per thread count N (the table index is `i % (2N)`: a symbolic modulus is out of reach); the caller's id is symbolic.
 */
#include "verif_rt.h"
#include <stdlib.h>
#include "fiber.h"
#include "fiber_scheduler.h"
#include "work_stealing_deque.h"
#ifndef NTHREADS
#define NTHREADS 2
#endif
typedef struct { int bad, steals, pushes, fails; fiber_t* pending; int have_local, want, attempted, missed; size_t local0; } ghost_t;
ghost_t G;
static size_t stub_size(wsd_work_stealing_deque_t* d);
#define wsd_work_stealing_deque_size(d) stub_size(d)
#include "src/fiber_scheduler_wsd.c" /* woven */
static wsd_work_stealing_deque_t Q[2 * NTHREADS];
static wsd_work_stealing_deque_t* TABLE[2 * NTHREADS];
static fiber_scheduler_wsd_t SCH[NTHREADS];
static fiber_t F1;
static size_t ME_ID;
static void spec_snap(void) {}
static void spec_step(int site) {}
static void spec_env(int site) {}
static void spec_read(int site, void* addr) {}
#include "verif_point.inc"
static int in_table(wsd_work_stealing_deque_t* d) { return __CPROVER_same_object(d, Q) && d >= &Q[0] && d < &Q[2 * NTHREADS]; }
static size_t stub_size(wsd_work_stealing_deque_t* d) {
  if (!in_table(d)) G.bad = 1;
  size_t v = (size_t)verif_pick(1000);
  if (!G.have_local) { G.have_local = 1; G.local0 = v; if (d != SCH[ME_ID].schedule_from) G.bad = 1; return v; }   /* the first size read is my own schedule_from */
  /* a remote queue: was the previous one, if it was longer than mine, at least tried? */
  if (G.want && !G.attempted) G.missed = 1;
  G.want = (v > G.local0 + (size_t)G.pushes) && G.pushes < 50; G.attempted = 0;
  return v;
}
void* wsd_work_stealing_deque_steal(wsd_work_stealing_deque_t* d) {
  if (!in_table(d) || d == SCH[ME_ID].queue_one || d == SCH[ME_ID].queue_two || G.pending) G.bad = 1;   /* a thief steals from OTHER threads' deques */
  G.attempted = 1;
  unsigned k = verif_pick(3);
  if (k == 0) { if (G.fails < 100) G.fails++; return WSD_EMPTY; }
  if (k == 1) { if (G.fails < 100) G.fails++; return WSD_ABORT; }
  G.steals++; G.pending = &F1; return &F1;
}
void wsd_work_stealing_deque_push_bottom(wsd_work_stealing_deque_t* d, void* p) {
  if (d != SCH[ME_ID].schedule_from || p != (void*)G.pending || p == 0 || p == WSD_EMPTY || p == WSD_ABORT) G.bad = 1;   /* owner-side operation on my own deque, with exactly what I stole */
  G.pending = 0; G.pushes++;
}
void* wsd_work_stealing_deque_pop_bottom(wsd_work_stealing_deque_t* d) { G.bad = 1; return WSD_EMPTY; }
void h_balance(void) {
  G.bad = G.steals = G.pushes = G.fails = 0; G.pending = 0; G.have_local = G.want = G.attempted = G.missed = 0; G.local0 = 0;
  fiber_scheduler_num_threads = NTHREADS; fiber_schedulers = SCH; fiber_scheduler_thread_queues = TABLE;
  ME_ID = (size_t)verif_pick(NTHREADS);
  for (int i = 0; i < NTHREADS; i++) {
    SCH[i].id = i; SCH[i].queue_one = &Q[2 * i]; SCH[i].queue_two = &Q[2 * i + 1];
    TABLE[2 * i] = verif_bool() ? &Q[2 * i] : (i == (int)ME_ID ? &Q[2 * i] : 0);       /* (another thread's deques may not be registered yet) */
    TABLE[2 * i + 1] = verif_bool() ? &Q[2 * i + 1] : (i == (int)ME_ID ? &Q[2 * i + 1] : 0);
  }
  int sw = verif_bool(); SCH[ME_ID].schedule_from = sw ? SCH[ME_ID].queue_two : SCH[ME_ID].queue_one; SCH[ME_ID].store_to = sw ? SCH[ME_ID].queue_one : SCH[ME_ID].queue_two;
  SCH[ME_ID].steal_count = verif_u64(); SCH[ME_ID].failed_steal_count = verif_u64();
  fiber_scheduler_load_balance((fiber_scheduler_t*)&SCH[ME_ID]);
  VASSERT(!G.bad, "H: C02 load_balance steals only from other kernel threads' deques and pushes only onto its own schedule_from, exactly the fiber it has just stolen");
  VASSERT(G.pending == 0 && G.pushes == G.steals && G.pushes <= 50, "H: C02 every stolen fiber is queued again exactly once before anything else happens (never dropped, never duplicated); at most 50 per call");
  if (G.want && !G.attempted) G.missed = 1;
  VASSERT(!G.missed, "H: C10 load_balance tries to steal from every other thread's queue that is longer than its own (a ready fiber queued behind a kernel thread that does not get to run it is not left there: yielding pollers elsewhere cannot starve it)");
  VCANARY("load_balance can return");
}
