/* C12 — barrier.  Refinement of the real fiber_barrier_wait (woven /repo/src/fiber_barrier.c).
 *
 * Shared   n = barrier->counter (arrivals so far), count (immutable, >= 1).
 * Ghost    a = my arrival number (value my fetch_add produced + 1); R = the arrival number that completes my round
 *          (the unique multiple of count with R - count < a <= R); serial <=> a == R <=> a % count == 0.
 * Contract (from the statement)
 *   every caller takes exactly one arrival number; the caller with a % count == 0 — and only it — is told SERIAL;
 *   the serial fiber never parks and issues exactly count-1 grants on the barrier's wait list, once;
 *   a non-serial fiber parks exactly once and returns (0) only after count fibers entered this round: n >= R.
 *   consecutive rounds use alternate wait lists: an arrival of round r (r = (a-1)/count) parks on / wakes from waiters[r & 1] only.
 *   The last clause of the statement rests on the park contract "the grant I consumed was issued by the serial fiber of MY round"
 *   (then that fiber's arrival number is R, so n >= R, and n never decreases).  That contract is justified by the
 *   protocol lemma in lemmas.c: a round-k serial fiber pops only round-k entries, because round-k+1 entries are on the other list and
 *   no round-k+2 entry can exist before the round-k serial fiber itself has arrived in round k+1 (count participants).
 *   (History: with a single list the lemma failed — finding D4, fixed in /repo; findings/D4_barrier_reuse.c.)
 */
#include "verif_rt.h"
#include "fiber_barrier.h"
#include "fiber_manager.h"

typedef struct {
  int arrived, parks, wakes;
  int serial;
  uint64_t a, R;
  uint64_t lastn;
} ghost_t;
fiber_barrier_t B;
ghost_t G;
fiber_manager_t VM0;
#define CUR_N (*(uint64_t*)&B.counter)

#include "src/fiber_barrier.c"

static void spec_snap(void) { G.lastn = CUR_N; }
static void spec_step(int site) {
  if (CUR_N == G.lastn) return;
  VASSERT(G.arrived == 0 && CUR_N == G.lastn + 1, "G: my only write to the counter is one arrival (+1)");
  G.arrived = 1; G.a = CUR_N;
  G.serial = -1; /* decided by the branch the code takes (wake = serial, park = not serial); cross-checked against
                    a % count == 0 in the concrete-count groups (a second symbolic 64-bit modulo is beyond every SAT back end here) */
  /* ghost witness R = arrival number of my round's serial fiber.  ASSUMPTION (arithmetic, lemma_rounds_bounded): it is the
     unique multiple of count with R - count < a <= R, hence a is serial iff a == R.  Written without a second modulo so
     that the only division circuits in the query are the code's own and this one identical expression. */
  G.R = verif_u64();
  VASSUME(G.R >= G.a && G.R - G.a < B.count);
#ifdef BCOUNT
  VASSUME(G.R % BCOUNT == 0);
#endif
}
static void havoc_env(void) {
  uint64_t n2 = verif_u64();
  VASSUME(n2 >= CUR_N && n2 < 0xFFFFFFFF00000000ull); /* arrivals only grow; A6: the 64-bit counter does not wrap */
  CUR_N = n2;
}
static void spec_env(int site) { havoc_env(); }
static void spec_read(int site, void* addr) {}
#include "verif_point.inc"

static int PRE_wait(void) { return B.count >= 1 && B.count <= 0x7FFFFFFFu /* A5 */ && G.arrived == 0 && G.parks == 0 && G.wakes == 0 && G.lastn == CUR_N && CUR_N < 0xFFFFFFFF00000000ull; }
static int POST_wait(int ret) {
  if (!(G.arrived == 1 && G.lastn == CUR_N && CUR_N >= G.a)) return 0;
#ifdef BCOUNT
  /* exactly the arrival that completes the round is told SERIAL */
  if (G.serial != (G.a % BCOUNT == 0) || G.serial != (G.a == G.R)) return 0;
#endif
  if (G.serial == 1) return ret == FIBER_BARRIER_SERIAL_FIBER && G.parks == 0 && G.wakes == 1;
  return G.serial == 0 && ret == 0 && G.parks == 1 && G.wakes == 0 && CUR_N >= G.R; /* nobody passes before all count arrived */
}
/* the list of my round: concrete-count groups check the parity (division by a constant); the count-generic group checks that it is one of
   the barrier's two lists (a second symbolic 64-bit division is beyond every SAT back end here, like the modulo) */
#ifdef BCOUNT
#define MYLIST(q) ((q) == &B.waiters[((G.a - 1) / BCOUNT) & 1])
#else
#define MYLIST(q) ((q) == &B.waiters[0] || (q) == &B.waiters[1])
#endif
static int PRE_park(fiber_manager_t* m, mpsc_fifo_t* q) { return m == &VM0 && MYLIST(q) && G.arrived == 1 && G.serial == -1 && G.parks == 0 && G.wakes == 0; }
static int POST_park(ghost_t o) {
  return G.arrived == o.arrived && G.serial == 0 && G.a == o.a && G.R == o.R && G.wakes == o.wakes && G.parks == o.parks + 1 &&
         G.lastn == CUR_N && CUR_N >= G.R /* the grant came from my round's serial fiber, whose arrival number is R */;
}
static int PRE_wake(fiber_manager_t* m, mpsc_fifo_t* q, int count) {
  return m == &VM0 && MYLIST(q) && G.arrived == 1 && G.serial == -1 && G.wakes == 0 && G.parks == 0 && (int64_t)count == (int64_t)B.count - 1;
}
static int POST_wake(ghost_t o, int count, int ret) {
  return (count == 0 ? (ret == 0 || ret == 1) : ret == count) && G.arrived == o.arrived && G.serial == 1 && G.a == o.a && G.R == o.R &&
         G.parks == o.parks && G.wakes == o.wakes + 1 && G.lastn == CUR_N && CUR_N >= G.a;
}
#if defined(VERIF_MODE_D)
int fiber_barrier_wait(fiber_barrier_t* barrier) __CPROVER_requires(barrier == &B && PRE_wait())
  __CPROVER_ensures(POST_wait(__CPROVER_return_value)) __CPROVER_assigns(B.counter, G);
fiber_manager_t* fiber_manager_get(void) __CPROVER_ensures(__CPROVER_return_value == &VM0) __CPROVER_assigns();
void fiber_manager_wait_in_mpsc_queue(fiber_manager_t* manager, mpsc_fifo_t* fifo)
  __CPROVER_requires(PRE_park(manager, fifo)) __CPROVER_ensures(POST_park(__CPROVER_old(G))) __CPROVER_assigns(B.counter, G);
int fiber_manager_wake_from_mpsc_queue(fiber_manager_t* manager, mpsc_fifo_t* fifo, int count)
  __CPROVER_requires(PRE_wake(manager, fifo, count)) __CPROVER_ensures(POST_wake(__CPROVER_old(G), count, __CPROVER_return_value))
  __CPROVER_assigns(B.counter, G);
#else
fiber_manager_t* fiber_manager_get(void) { return &VM0; }
void fiber_manager_wait_in_mpsc_queue(fiber_manager_t* manager, mpsc_fifo_t* fifo) {
  VASSERT(PRE_park(manager, fifo), "C: only a non-serial arrival parks, once, on the wait list of its own round");
  ghost_t o = G; G.parks += 1; G.serial = 0; havoc_env(); spec_snap(); VASSUME(POST_park(o));
}
int fiber_manager_wake_from_mpsc_queue(fiber_manager_t* manager, mpsc_fifo_t* fifo, int count) {
  VASSERT(PRE_wake(manager, fifo, count), "C: only the serial arrival wakes, once, exactly count-1 waiters, from the wait list of its own round");
  ghost_t o = G; G.wakes += 1; G.serial = 1; havoc_env(); spec_snap(); int ret = count ? count : verif_bool(); VASSUME(POST_wake(o, count, ret));
  return ret;
}
#endif
void h_wait(void) {
  CUR_N = verif_u64();
#ifdef BCOUNT
  B.count = BCOUNT;
#else
  B.count = verif_u32();
#endif
  G.arrived = G.parks = G.wakes = G.serial = 0; G.a = G.R = 0; spec_snap();
  VASSUME(PRE_wait());
  int r = fiber_barrier_wait(&B);
  VASSERT(POST_wait(r), "H: one arrival; serial iff arrival number is a multiple of count; serial wakes count-1 once; others park once and return after the round is full");
  VCANARY("barrier_wait can return");
}
/* init: from ANY memory content (a lock placed in recycled memory) the initialiser establishes the state every proof above starts from */
void h_init(void) {
  static fiber_barrier_t X; memset(&X, (int)verif_u64(), sizeof(X));
  uint32_t n = (uint32_t)verif_u64(); VASSUME(n > 0);
  int r = fiber_barrier_init(&X, n);
  if (r == FIBER_SUCCESS) VASSERT(X.count == n && X.counter == 0 && (X.waiters[0].head != 0 && X.waiters[0].head == X.waiters[0].tail && X.waiters[0].head->next == 0) && (X.waiters[1].head != 0 && X.waiters[1].head == X.waiters[1].tail && X.waiters[1].head->next == 0),
                                  "H: C12 init: round 0, nobody arrived, the requested count, both wait lists empty and usable, whatever the memory held");
  else VASSERT(r == FIBER_ERROR, "H: C12 init reports an allocation failure as FIBER_ERROR");
  VCANARY("init can return");
}
