WEAVE = [dict(file='src/fiber_barrier.c', fns=['fiber_barrier_wait'])]
PARK = ['fiber_manager_get', 'fiber_manager_wait_in_mpsc_queue', 'fiber_manager_wake_from_mpsc_queue']
COUNTS_QUICK = [1, 2, 3, 4, 5, 6]
COUNTS_THOROUGH = [7, 8, 16, 32]
GROUPS = [
    dict(name='wait', tu='barrier.c', harness='h_wait', mode='D', enforce='fiber_barrier_wait', replace=PARK, functions=['fiber_barrier_wait'], timeout=300),
] + [
    dict(name='wait_count%d' % c, tu='barrier.c', harness='h_wait', mode='D', enforce='fiber_barrier_wait', replace=PARK,
         functions=['fiber_barrier_wait'], defs=['-DBCOUNT=%d' % c], timeout=600, bounded=True, bound='count = %d (all 2^64 arrival numbers)' % c,
         thorough_only=(c in COUNTS_THOROUGH)) for c in COUNTS_QUICK + COUNTS_THOROUGH
] + [
    dict(name='init', tu='barrier.c', harness='h_init', mode='H', functions=['fiber_barrier_init'], unwind=3, exact_unwind=True),
    dict(name='lemmas', tu='lemmas.c', kind='lemmas', harness='', no_native='pure lemma'),
]
ASSUMPTIONS = [
    'A6 the 64-bit arrival counter does not wrap',
    'exactly `count` fibers use the barrier (as the statement says)',
    'park contract "my grant was issued by my round\'s serial fiber" is justified by the protocol lemma (lemmas.c: with alternating wait lists the round-k serial fiber pops only round-k entries) and the mpsc queue contract (C15); the lemma is over the abstract protocol, tied to the code by the per-call obligations "parks on / wakes from the list of its own round"',
    'the clause "SERIAL iff the arrival number is a multiple of count" is cross-checked for the listed concrete counts only (all 2^64 arrival numbers each): a second symbolic 64-bit modulo is beyond every SAT back end on this image; for symbolic count the proof covers everything else (one arrival, serial branch wakes count-1 once and never parks, other branch parks once)',
]
# obligation groups of other properties' specifications that this property also rests on (its anchors name those files); see DESIGN.md 11.2
IMPORTS = [dict(prop='C01', groups=['wait_in_mpsc', 'wake_from_mpsc', 'maintenance', 'maintenance_migrating_unlock'])]
