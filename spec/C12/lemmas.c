/* C12 protocol lemma: which entries can the serial fiber of round k pop?
 *
 * Abstract state around one round k and its successor (count participants, as the statement says):
 *   ann_k  arrivals of round k that took a number and have not enqueued yet       enq_k  enqueued, unpopped round-k entries
 *   ser    the serial fiber of round k has arrived and is in its wake loop         pop_k  round-k entries it has popped
 *   rel    round-k waiters already scheduled (they may run and re-enter)           ann_n / enq_n   the same for round k+1
 *   pop_n  round-(k+1) entries popped by the round-k serial fiber (must stay 0: such a fiber passes round k+1 early and a
 *          round-k waiter is left behind)
 * FULL (the code as it is):   a released waiter may re-enter at once.      TWIN: no re-entry while ser (restricted twin).
 */
#include "verif_rt.h"
typedef struct { unsigned count, arr_k, ann_k, enq_k, ser, pop_k, rel, ann_n, enq_n, pop_n; } st_t;
static int inv(st_t s, int twin) {
  return s.count >= 1 && s.count <= 0x7FFFFFFF && s.ser <= 1 && s.arr_k <= s.count && s.ann_k <= s.count && s.enq_k <= s.count &&
         s.pop_k <= s.count && s.rel <= s.count && s.ann_n <= s.count && s.enq_n <= s.count && s.pop_n <= s.count &&
         (!twin || !s.ser || s.ann_n == 0) && (s.ser || (s.pop_k == 0 && s.pop_n == 0)) && (s.ser == (s.arr_k == s.count)) &&
         /* the count-1 non-serial arrivals of round k are announced, enqueued, or popped */
         (uint64_t)s.ann_k + s.enq_k + s.pop_k + s.ser == (uint64_t)s.arr_k && (uint64_t)s.rel == (uint64_t)s.pop_k + s.pop_n &&
         (uint64_t)s.pop_k + s.pop_n + 1 <= (uint64_t)s.count &&
         /* round k+1 can only be entered by fibers released from round k */
         (uint64_t)s.ann_n + s.enq_n + s.pop_n <= (uint64_t)s.rel &&
         /* THE CLAIM the park contract needs: the serial fiber of round k pops only round-k entries */
         s.pop_n == 0 && (!s.ser || s.enq_n == 0);
}
static int act(int w, st_t* s, int twin) {
  switch (w) {
    case 0: if (s->arr_k >= s->count - 1 || s->ser) return 0; s->arr_k++; s->ann_k++; return 1;                 /* non-serial arrival of round k */
    case 1: if (s->arr_k != s->count - 1 || s->ser) return 0; s->arr_k++; s->ser = 1; return 1;                  /* serial arrival */
    case 2: if (!s->ann_k) return 0; s->ann_k--; s->enq_k++; return 1;                                          /* deferred enqueue */
    case 3: if (!s->ser || !s->enq_k || s->pop_k + s->pop_n >= s->count - 1) return 0; s->enq_k--; s->pop_k++; s->rel++; return 1; /* pop + schedule */
    case 4: if (!s->ser || !s->enq_n || s->pop_k + s->pop_n >= s->count - 1) return 0; s->enq_n--; s->pop_n++; s->rel++; return 1; /* pops a next-round entry */
    case 5: if (s->ann_n + s->enq_n + s->pop_n >= s->rel) return 0; if (twin && s->ser) return 0; s->ann_n++; return 1; /* a released fiber re-enters */
    case 6: if (!s->ann_n) return 0; s->ann_n--; s->enq_n++; return 1;
  }
  return 0;
}
#define ANYST st_t s; s.count = verif_u32(); s.arr_k = verif_u32(); s.ann_k = verif_u32(); s.enq_k = verif_u32(); s.ser = verif_u32(); \
  s.pop_k = verif_u32(); s.rel = verif_u32(); s.ann_n = verif_u32(); s.enq_n = verif_u32(); s.pop_n = verif_u32();
void lemma_full_serial_pops_only_its_round(void) {
  ANYST VASSUME(inv(s, 0));
  int w = (int)verif_pick(7); VASSUME(act(w, &s, 0));
  VASSERT(inv(s, 0), "L: D4 (full) the serial fiber of round k pops only round-k entries, also when released fibers re-enter at once");
  VCANARY("full premises satisfiable");
}
void lemma_twin_serial_pops_only_its_round(void) {
  ANYST VASSUME(inv(s, 1));
  int w = (int)verif_pick(7); VASSUME(act(w, &s, 1));
  VASSERT(inv(s, 1), "L: (twin) the serial fiber of round k pops only round-k entries when nobody re-enters during its wake loop");
  VCANARY("twin premises satisfiable");
}
void lemma_round_completes(void) {
  /* when the serial fiber has popped count-1 round-k entries, every round-k waiter has been released: all of them return */
  ANYST VASSUME(inv(s, 1) && s.ser && s.pop_k == s.count - 1);
  VASSERT(s.ann_k == 0 && s.enq_k == 0 && s.rel == s.count - 1, "L: L4 when the wake loop ends every round-k waiter has been released exactly once");
  VCANARY("complete premises satisfiable");
}
/* arithmetic of arrival numbers, bounded stand-in for count (B: count <= 15, a < 2^12; the concrete-count refinement groups cover all 2^64 arrival numbers) */
void lemma_rounds_bounded(void) {
  unsigned count = verif_u32() & 0xF; unsigned a = verif_u32() & 0xFFF;
  VASSUME(count >= 1 && a >= 1);
  unsigned R = verif_u32() & 0x1FFF;
  VASSUME(R % count == 0 && R >= a && R - a < count);
  VASSERT((a % count == 0) == (a == R), "B: the fiber told SERIAL is the one whose arrival number completes the round (count <= 15, a < 2^12)");
  unsigned b = verif_u32() & 0xFFF;
  VASSUME(b >= 1 && b != a && R >= b && R - b < count);
  VASSERT(!(a % count == 0 && b % count == 0), "B: exactly one arrival number per round is a multiple of count (count <= 15, a < 2^12)");
  VCANARY("rounds premises satisfiable");
}
