/* C12 protocol lemma: which entries can the serial fiber of round k pop?
 *
 * count participants (as the statement says), each in one round at a time.  Rounds alternate between two wait lists, so the list of
 * round k holds entries of rounds k, k+2, ... only.  Abstract state around round k:
 *   arr_k   arrivals of round k            ann_k  took a number, not enqueued yet      enq_k  enqueued on list(k), unpopped
 *   ser     the serial fiber of round k has arrived          done   ... and has finished its wake loop
 *   pop_k   round-k entries it has popped (= released)        pop_x  entries of another round it has popped (must stay 0)
 *   arr_n   arrivals of round k+1 (released round-k waiters, and the round-k serial fiber once done)
 *   arr_nn  arrivals of round k+2 (possible only when round k+1 is complete)      enq_nn  their entries on list(k) = list(k+2)
 * CLAIM  pop_x == 0: while the round-k serial fiber pops, list(k) holds round-k entries only.
 * SINGLE (the pinned code before the fix, kept as a regression of finding D4): one list for all rounds — then round-k+1 entries sit on the
 * list the round-k serial fiber pops from, and the claim is NOT inductive (lemma expected to FAIL is not run; see findings/D4_barrier_reuse.c).
 */
#include "verif_rt.h"
typedef struct { unsigned count, arr_k, ann_k, enq_k, ser, done, pop_k, pop_x, arr_n, enq_n, arr_nn, enq_nn; } st_t;
static int inv(st_t s) {
  return s.count >= 1 && s.count <= 0x7FFFFFFF && s.ser <= 1 && s.done <= 1 && s.done <= s.ser &&
         s.arr_k <= s.count && s.ann_k <= s.count && s.enq_k <= s.count && s.pop_k <= s.count && s.arr_n <= s.count && s.enq_n <= s.count && s.arr_nn <= s.count && s.enq_nn <= s.count &&
         (s.ser == (s.arr_k == s.count)) && (s.ser || s.pop_k == 0) &&
         /* the non-serial arrivals of round k are announced, enqueued or popped */
         (uint64_t)s.ann_k + s.enq_k + s.pop_k + s.ser == (uint64_t)s.arr_k &&
         (uint64_t)s.pop_k + 1 <= (uint64_t)s.count && (!s.done || (uint64_t)s.pop_k + 1 == (uint64_t)s.count) &&
         /* round k+1 is entered only by fibers released from round k and by the round-k serial fiber after its wake loop */
         (uint64_t)s.arr_n <= (uint64_t)s.pop_k + s.done && s.enq_n <= s.arr_n &&
         /* round k+2 is entered only when round k+1 is complete */
         (s.arr_nn == 0 || s.arr_n == s.count) && s.enq_nn <= s.arr_nn &&
         /* THE CLAIM the park contract needs */
         s.pop_x == 0 && (!(s.ser && !s.done) || s.enq_nn == 0);
}
static int act(int w, st_t* s) {
  switch (w) {
    case 0: if (s->arr_k >= s->count - 1 || s->ser) return 0; s->arr_k++; s->ann_k++; return 1;                              /* non-serial arrival of round k */
    case 1: if (s->arr_k != s->count - 1 || s->ser) return 0; s->arr_k++; s->ser = 1; if (s->count == 1) s->done = 1; return 1; /* serial arrival (count 1: nothing to wake) */
    case 2: if (!s->ann_k) return 0; s->ann_k--; s->enq_k++; return 1;                                                       /* deferred enqueue on list(k) */
    case 3: if (!s->ser || s->done || !s->enq_k) return 0; s->enq_k--; s->pop_k++; if (s->pop_k + 1 == s->count) s->done = 1; return 1;  /* pop a round-k entry + schedule */
    case 4: if (!s->ser || s->done || !s->enq_nn) return 0; s->enq_nn--; s->pop_x++; return 1;                               /* pop whatever else is on list(k) */
    case 5: if ((uint64_t)s->arr_n >= (uint64_t)s->pop_k + s->done) return 0; s->arr_n++; return 1;                          /* a released fiber (or the finished serial fiber) enters round k+1 */
    case 6: if (s->enq_n >= s->arr_n) return 0; s->enq_n++; return 1;                                                        /* ... and enqueues on list(k+1) */
    case 7: if (s->arr_n != s->count || s->arr_nn >= s->count) return 0; s->arr_nn++; return 1;                              /* round k+1 complete: round k+2 arrivals */
    case 8: if (s->enq_nn >= s->arr_nn) return 0; s->enq_nn++; return 1;                                                     /* ... enqueue on list(k+2) = list(k) */
  }
  return 0;
}
#define ANYST st_t s; s.count = verif_u32(); s.arr_k = verif_u32(); s.ann_k = verif_u32(); s.enq_k = verif_u32(); s.ser = verif_u32(); s.done = verif_u32(); \
  s.pop_k = verif_u32(); s.pop_x = verif_u32(); s.arr_n = verif_u32(); s.enq_n = verif_u32(); s.arr_nn = verif_u32(); s.enq_nn = verif_u32();
void lemma_init_state_satisfies_inv(void) {
  st_t s = {0}; s.count = verif_u32(); VASSUME(s.count >= 1 && s.count <= 0x7FFFFFFF);
  VASSERT(inv(s), "L: L0 the state at the start of a round (list empty, nobody arrived) satisfies the invariant");
  VCANARY("init premises satisfiable");
}
void lemma_serial_pops_only_its_round(void) {
  ANYST VASSUME(inv(s));
  int w = (int)verif_pick(9); VASSUME(act(w, &s));
  VASSERT(inv(s), "L: L1 the serial fiber of round k pops only round-k entries, also when released fibers re-enter at once (alternating wait lists)");
  VCANARY("lemma premises satisfiable");
}
void lemma_round_completes(void) {
  /* when the serial fiber has finished its wake loop, every round-k waiter has been released exactly once */
  ANYST VASSUME(inv(s) && s.done);
  VASSERT(s.ann_k == 0 && s.enq_k == 0 && (uint64_t)s.pop_k + 1 == (uint64_t)s.count, "L: L4 when the wake loop ends every round-k waiter has been released exactly once");
  VCANARY("complete premises satisfiable");
}
/* arithmetic of arrival numbers, bounded stand-in for count (B: count <= 15, a < 2^12; the concrete-count refinement groups cover all 2^64 arrival numbers) */
void lemma_rounds_bounded(void) {
  unsigned count = verif_u32() & 0xF; unsigned a = verif_u32() & 0xFFF;
  VASSUME(count >= 1 && a >= 1);
  unsigned R = verif_u32() & 0x1FFF;
  VASSUME(R % count == 0 && R >= a && R - a < count);
  VASSERT((a % count == 0) == (a == R), "B: the fiber told SERIAL is the one whose arrival number completes the round (count <= 15, a < 2^12)");
  VASSERT((a - 1) / count == (R - 1) / count, "B: every arrival of a round computes the same round index as its serial fiber, hence the same wait list (count <= 15, a < 2^12)");
  unsigned b = verif_u32() & 0xFFF;
  VASSUME(b >= 1 && b != a && R >= b && R - b < count);
  VASSERT(!(a % count == 0 && b % count == 0), "B: exactly one arrival number per round is a multiple of count (count <= 15, a < 2^12)");
  VCANARY("rounds premises satisfiable");
}
