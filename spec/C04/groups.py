WEAVE = [dict(file='src/fiber.c', fns=['fiber_mark_completed', 'fiber_join', 'fiber_tryjoin', 'fiber_detach'])]
def H(n, twin=False):
    # unwind: the CAS retry loops of join / mark_completed repeat only when detach_state changed under them, and the protocol allows at most four
    # changes (NONE -> WAIT_TO_JOIN -> WAIT_FOR_JOINER -> WAIT_TO_JOIN -> DETACHED); the unwinding assertions check that 6 rounds are enough
    return dict(name=n + ('_twin' if twin else ''), tu='join.c', harness='h_' + n, mode='H', functions=['fiber_' + n], unwind=6, exact_unwind=True,
                defs=(['-DNO_DETACH_WHILE_JOINER_PARKED'] if twin else []))
GROUPS = [H('join'), H('join', True), H('tryjoin'), H('detach'), H('mark_completed')]
ASSUMPTIONS = ['fiber_manager_set_and_wait / clear_or_wait / scheduler by the C01 contracts (park publishes the value only after the context is saved; clear_or_wait returns the parked party)',
               'after my own exchange on detach_state the other parties follow the protocol (they do not exchange again in a way that concerns me); fiber_detach may act at any instant before that (obligation: DETACHED is final)',
               'twin: no fiber_detach while a joiner is parked']
# obligation groups of other properties' specifications that this property also rests on (its anchors name those files); see DESIGN.md 11.2
IMPORTS = [dict(prop='C01', groups=['set_and_wait', 'clear_or_wait', 'maintenance', 'maintenance_migrating_unlock', 'completion'])]
