/* C04 — join / tryjoin / detach.  fiber_mark_completed, fiber_join, fiber_tryjoin, fiber_detach (woven /repo/src/fiber.c) against the
 * rendezvous contracts of fiber_manager_set_and_wait / fiber_manager_clear_or_wait (C01) and the scheduler.
 *
 * Shared   T = the target fiber: T.detach_state ∈ {NONE, WAIT_FOR_JOINER (finisher first), WAIT_TO_JOIN (joiner first), DETACHED},
 *          T.join_info (mailbox: the parked party), T.result.      Ghost: fin = T's function has returned, R = its return value.
 * INV      detach_state = WAIT_FOR_JOINER ⇒ fin ∧ T.result = R     (the finisher stores the result before its exchange)
 * Contract (from the statement)
 *   join / tryjoin SUCCESS ⇒ fin ∧ *result = R; at most the party whose exchange saw NONE (join) or WAIT_FOR_JOINER (join/tryjoin) succeeds;
 *   a detached fiber cannot be joined (ERROR, no effect); tryjoin never parks;
 *   the finisher delivers R exactly once: it parks as the mailbox (the joiner copies T.result BEFORE waking it), or it writes R into the
 *   parked joiner and wakes it exactly once;
 *   waking the finished fiber hands T over to reclamation: nothing of T is touched afterwards (the scheduler contract frees T).
 * Rely     a fiber parked in T.join_info is taken out exactly once, by whoever's exchange tells them to: the finisher (delivers R first),
 *          or fiber_detach.  The second case is finding D5: the joiner's fiber_join then returns SUCCESS although fin does not hold.
 *          -DNO_DETACH_WHILE_JOINER_PARKED is the restricted twin.
 */
#include "verif_rt.h"
#include "fiber.h"
#include "fiber_manager.h"
#include <stdlib.h>
typedef struct {
  int fin; void* R;
  int parks, scheduled, sched_bad, yields;
  int mailbox; int fin_exchanged; int claimed;   /* claimed: my write replaced WAIT_FOR_JOINER by WAIT_TO_JOIN (I used up the fiber's single join) */
  int other_joined;   /* another joiner's exchange took the hand-off from the finished fiber (WAIT_FOR_JOINER -> WAIT_TO_JOIN) */
  fiber_t* taken_out;  /* the party clear_or_wait handed me (it has parked: its context is saved) */
  int woken_by_detach; int detach_saw_joiner; int ds_seen; /* detach_state as it was at my latest access to it (for an exchange: the value it replaced) */
  int t_freed;
} ghost_t;
ghost_t G;
fiber_manager_t VM0;
fiber_t ME;          /* the calling fiber (joiner / detacher) */
fiber_t OTHERJ;      /* another joiner that may be parked in the mailbox */
fiber_t* T;          /* the target fiber (heap object: reclaimed once its finished self is woken) */
#include "src/fiber.c" /* woven */
/* the private marker fiber_detach hands to a parked joiner (introduced by the D5 fix); a rename makes this TU fail to compile = undecided */
#define C04_DETACH_MARKER ((void*)&fiber_join_detached_marker)
static int role_finisher, role_detacher;
static int l_ds;
static int my_exchange_done;   /* my exchange on detach_state has decided my part; from then on the others see my value and follow the protocol */
static void spec_snap(void) { if (T && !G.t_freed) l_ds = *(int*)&T->detach_state; }
static void spec_step(int site) {
  if (T && !G.t_freed && *(int*)&T->detach_state != l_ds) {
    /* my write to detach_state (the value it replaced is the one that was there at the instant of the write: l_ds) */
    if (!role_detacher) VASSERT(l_ds != FIBER_DETACH_DETACHED, "G: C04 DETACHED is final: a joiner's or the finisher's write never replaces it (joining a detached fiber fails - also when the detach lands between my look at the state and my write)");
    if (!role_detacher && !role_finisher && l_ds == FIBER_DETACH_WAIT_FOR_JOINER && *(int*)&T->detach_state == FIBER_DETACH_WAIT_TO_JOIN) G.claimed = 1;
    if (role_finisher) VASSERT((l_ds == FIBER_DETACH_NONE && *(int*)&T->detach_state == FIBER_DETACH_WAIT_FOR_JOINER) || (l_ds == FIBER_DETACH_WAIT_TO_JOIN && *(int*)&T->detach_state == FIBER_DETACH_JOINED),
                               "G: C04 the finisher announces WAIT_FOR_JOINER only when nobody is parked (it then parks itself); with a joiner parked it announces JOINED, which no join, tryjoin or detach acts on (nobody can mistake the parked joiner for the finished fiber)");
    if (!role_finisher && !role_detacher) VASSERT(*(int*)&T->detach_state == FIBER_DETACH_WAIT_TO_JOIN && (l_ds == FIBER_DETACH_NONE || l_ds == FIBER_DETACH_WAIT_FOR_JOINER),
                               "G: C04 a joiner moves the state only from NONE (it parks) or from WAIT_FOR_JOINER (it takes the parked finished fiber), to WAIT_TO_JOIN");
    my_exchange_done = 1;
  }
}
static int ds_ok(int d) { return d == FIBER_DETACH_NONE || d == FIBER_DETACH_WAIT_FOR_JOINER || d == FIBER_DETACH_WAIT_TO_JOIN || d == FIBER_DETACH_DETACHED || d == FIBER_DETACH_JOINED; }
#define DS (*(int*)&T->detach_state)
/* interference: the other parties act on T (only before I have been told, by my own exchange, what to do) */
#define MB_EMPTY 0
#define MB_FINISHER 1   /* the finished fiber is (or is about to be) parked in T.join_info */
#define MB_OTHER 2      /* another joiner is parked there */
#define MB_ME 3
static void spec_env(int site) {
  if (G.t_freed || my_exchange_done) return;
  if (verif_bool()) return;
  int d0 = DS;
  if (!role_finisher) {
    unsigned k = verif_pick(4);
    if (k == 0 && !G.fin_exchanged && d0 != FIBER_DETACH_WAIT_FOR_JOINER && d0 != FIBER_DETACH_DETACHED && d0 != FIBER_DETACH_JOINED) {
      /* the finisher: stores the result, then its single transition (never away from DETACHED); with a joiner parked it announces JOINED and
         takes that joiner out of the mailbox in a SECOND step */
      G.fin = 1; G.fin_exchanged = 1; *(void**)&T->result = G.R;
      if (d0 == FIBER_DETACH_NONE) { DS = FIBER_DETACH_WAIT_FOR_JOINER; G.mailbox = MB_FINISHER; }                       /* it parks as the mailbox */
      else { DS = FIBER_DETACH_JOINED; if (G.mailbox == MB_OTHER && verif_bool()) { G.mailbox = MB_EMPTY; G.other_joined = 1; } }
    } else if (k == 1) {
      /* another joiner / try-joiner: moves the state only from NONE (parks) or WAIT_FOR_JOINER (takes the finished fiber) */
      if (d0 == FIBER_DETACH_NONE) { DS = FIBER_DETACH_WAIT_TO_JOIN; G.mailbox = MB_OTHER; }
      else if (d0 == FIBER_DETACH_WAIT_FOR_JOINER && G.mailbox == MB_FINISHER) { DS = FIBER_DETACH_WAIT_TO_JOIN; G.mailbox = MB_EMPTY; G.other_joined = 1; }
    } else if (k == 3 && d0 == FIBER_DETACH_JOINED && G.mailbox == MB_OTHER) {
      G.mailbox = MB_EMPTY; G.other_joined = 1;   /* the finisher takes the parked joiner out and hands it R */
    } else if (k == 2) {
      DS = FIBER_DETACH_DETACHED;
      if (d0 == FIBER_DETACH_WAIT_FOR_JOINER || d0 == FIBER_DETACH_WAIT_TO_JOIN) G.mailbox = MB_EMPTY;   /* detach takes the parked party out */
    }
  } else {
    unsigned k = verif_pick(3);
    if (k == 0) { if (d0 == FIBER_DETACH_NONE) { DS = FIBER_DETACH_WAIT_TO_JOIN; G.mailbox = MB_ME; } }   /* a joiner (ME in this harness) announces itself (only from NONE) and parks */
    else if (k == 1) { DS = FIBER_DETACH_DETACHED; }
  }
}
#ifdef VERIF_NATIVE
#define IN_T(a) ((char*)(a) >= (char*)T && (char*)(a) < (char*)(T + 1))
#else
#define IN_T(a) __CPROVER_same_object((a), T)
#endif
static void spec_read(int site, void* addr) {
  if (!G.t_freed && addr == (void*)&T->detach_state) G.ds_seen = DS;
  VASSERT(!G.t_freed || !IN_T(addr), "O: C04 the finished fiber is not touched after it has been woken (it may already be reclaimed)");
}
#include "verif_point.inc"
fiber_manager_t* fiber_manager_get(void) { return &VM0; }
void fiber_manager_yield(fiber_manager_t* m) { if (G.yields < 3) G.yields++; }
void fiber_manager_do_maintenance(void) {}
int fiber_context_init(fiber_context_t* c, size_t s, fiber_run_function_t f, void* p) { return FIBER_SUCCESS; }
int fiber_context_init_from_thread(fiber_context_t* c) { return FIBER_SUCCESS; }
/* park in T.join_info until taken out (C01: the value is published only after my context is saved) */
void fiber_manager_set_and_wait(fiber_manager_t* m, void** location, void* value) {
  VASSERT(m == &VM0 && location == (void**)&T->join_info && value == (void*)VM0.current_fiber, "C: park in the target's mailbox with myself as the value");
  if (G.parks < 3) G.parks++;
  if (!role_finisher) {
    /* I am the joiner, detach_state is WAIT_TO_JOIN by my exchange.  Who takes me out? */
#ifndef NO_DETACH_WHILE_JOINER_PARKED
    G.woken_by_detach = verif_bool();
#else
    G.woken_by_detach = 0;
#endif
    if (!G.woken_by_detach) { G.fin = 1; *(void**)&ME.result = G.R; }   /* the finisher: delivers R into me, then wakes me */
    else *(void**)&ME.result = C04_DETACH_MARKER;                        /* fiber_detach: hands me its marker (what h_detach proves it does) */
    /* by the time I run again the target may be finished, DONE and reclaimed (woken by the finisher), or detached: T is no longer mine to read */
    G.t_freed = 1;
  }
}
void* fiber_manager_clear_or_wait(fiber_manager_t* m, _Atomic(void*)* location) {
  VASSERT(m == &VM0 && location == (_Atomic(void*)*)&T->join_info, "C: take the parked party out of the target's mailbox");
  /* spins (yielding) until the mailbox is occupied; with an empty mailbox that nobody will fill it never returns */
  VASSERT(role_finisher || role_detacher || G.ds_seen == FIBER_DETACH_WAIT_FOR_JOINER, "C04: a joiner takes the parked party out of the mailbox only when its own exchange replaced WAIT_FOR_JOINER (else it would wait forever - tryjoin would block - or wake another joiner)");
  /* an empty mailbox that nobody will fill: the call never returns.  (Reachable only for a joiner arriving after the finisher already handed
     its result to another joiner: the handle is being used after the fiber was joined - caller error, as with pthread_join.) */
  VASSUME(G.mailbox != MB_EMPTY);
  if (!role_finisher && !role_detacher) { if (G.mailbox == MB_OTHER) { G.mailbox = MB_EMPTY; G.taken_out = &OTHERJ; return (void*)&OTHERJ; } }
  G.mailbox = MB_EMPTY;
  if (role_detacher) { G.detach_saw_joiner = (G.ds_seen == FIBER_DETACH_WAIT_TO_JOIN); G.taken_out = G.detach_saw_joiner ? &ME : T; return G.taken_out; }   /* a parked joiner (here: ME) or the parked finished fiber */
  G.taken_out = role_finisher ? &ME : T;
  return G.taken_out;   /* the finisher finds the joiner, everybody else finds the finished fiber */
}
void fiber_scheduler_schedule(fiber_scheduler_t* s, fiber_t* f) {
  if (f->state != FIBER_STATE_READY || G.scheduled) G.sched_bad = 1;
  if (f != G.taken_out) G.sched_bad = 1;   /* C01: a fiber is made runnable only after it was taken out of the mailbox, i.e. after it has parked (context saved) */
  if (role_finisher && f == &ME && *(void**)&ME.result != G.R) G.sched_bad = 1;   /* the joiner is woken only after the return value is in it */
  G.scheduled++;
  if (!role_finisher && !role_detacher && f != T) G.sched_bad = 1;   /* a joiner only ever wakes the finished fiber, never another joiner */
  if (f == T) { G.t_freed = 1; }   /* the finished fiber runs on, becomes DONE and is reclaimed: T is gone */
}
static void init(int finisher) {
  role_finisher = finisher; role_detacher = 0; my_exchange_done = 0; G.detach_saw_joiner = 0;
  T = (fiber_t*)malloc(sizeof(fiber_t)); VASSUME(T != 0);
  G.R = (void*)verif_u64(); VASSUME(G.R != C04_DETACH_MARKER); /* a user's return value cannot be the library's private marker */ G.parks = G.scheduled = G.sched_bad = G.yields = 0; G.woken_by_detach = 0; G.t_freed = 0; G.other_joined = 0; G.taken_out = 0;
  G.mailbox = MB_EMPTY; G.fin_exchanged = 0; G.claimed = 0;
  int d = verif_int(); VASSUME(ds_ok(d)); DS = d;
  G.fin = (d == FIBER_DETACH_WAIT_FOR_JOINER || d == FIBER_DETACH_JOINED) ? 1 : verif_bool();
  if (d == FIBER_DETACH_WAIT_FOR_JOINER) { G.fin_exchanged = 1; G.mailbox = MB_FINISHER; }
  if (d == FIBER_DETACH_JOINED) { G.fin_exchanged = 1; if (verif_bool()) G.mailbox = MB_OTHER; else G.other_joined = 1; }   /* the finisher is handing over to a parked joiner (or has) */
  if (d == FIBER_DETACH_WAIT_TO_JOIN) G.mailbox = finisher ? MB_ME : MB_OTHER;   /* (WAIT_TO_JOIN with an empty mailbox = already joined and reclaimed: calling anything on it is a use after free by the caller) */
  if (finisher) G.fin_exchanged = 0;
  *(void**)&T->result = (d == FIBER_DETACH_WAIT_FOR_JOINER || d == FIBER_DETACH_JOINED) ? G.R : (void*)verif_u64();
  *(fiber_t**)&T->join_info = 0; T->state = FIBER_STATE_WAITING;
  VM0.current_fiber = finisher ? T : &ME; VM0.scheduler = (fiber_scheduler_t*)&VM0;
  ME.state = finisher ? FIBER_STATE_WAITING : FIBER_STATE_RUNNING; *(void**)&ME.result = 0;
  spec_snap();   /* (the step monitor compares against this: without it the first point would mistake the initial state for a write of mine) */
}
void h_join(void) {
  init(0); void* res = (void*)verif_u64();
  int r = fiber_join(T, &res);
  if (r == FIBER_SUCCESS) {
    VASSERT(!G.sched_bad && G.parks + G.scheduled == 1, "C04: a successful join either parked once (joiner first) or woke the finished fiber once (finisher first)");
    VASSERT(G.fin && res == G.R, "C04.join: SUCCESS only after the fiber's function returned, delivering exactly its return value");
    VASSERT(!G.other_joined, "C04.join: at most one joiner succeeds");
    if (G.scheduled == 1) VASSERT(G.claimed, "C04.join: a join that finds the fiber finished uses up its single join (WAIT_FOR_JOINER is replaced): no later joiner can succeed as well");
  } else VASSERT(r == FIBER_ERROR && G.scheduled == 0 && res == 0 && (G.parks == 0 || (G.parks == 1 && G.woken_by_detach)), "C04.join: a failed join delivers nothing and wakes nobody; it fails without parking (detached / already being joined) or because fiber_detach released it");
  VCANARY("join can return");
}
void h_tryjoin(void) {
  init(0); void* res = (void*)verif_u64();
  int r = fiber_tryjoin(T, &res);
  VASSERT(G.parks == 0 && !G.sched_bad, "C04.tryjoin: never parks; wakes nobody but the finished fiber");
  if (r == FIBER_SUCCESS) VASSERT(!G.sched_bad && G.scheduled == 1 && G.fin && res == G.R && !G.other_joined && G.claimed, "C04.tryjoin: SUCCESS only for a finished fiber nobody else has joined, delivering its return value and waking it once");
  else VASSERT(r == FIBER_ERROR && G.scheduled == 0 && res == 0, "C04.tryjoin: failure wakes nobody and delivers nothing");
  VCANARY("tryjoin can return");
}
void h_detach(void) {
  init(0); role_detacher = 1; ME.state = FIBER_STATE_WAITING;
  int d0 = DS;
  int r = fiber_detach(T);
  VASSERT(G.parks == 0 && !G.sched_bad && G.scheduled <= 1, "C04.detach: never parks; wakes at most the one parked party");
  if (G.scheduled == 1 && G.detach_saw_joiner) VASSERT(*(void**)&ME.result == C04_DETACH_MARKER, "C04.detach: a parked joiner released by detach is told so (its join must fail: a detached fiber cannot be joined)");
  VCANARY("detach can return");
}
void h_mark_completed(void) {
  init(1); G.fin = 1; VASSUME(DS != FIBER_DETACH_WAIT_FOR_JOINER && DS != FIBER_DETACH_JOINED); G.other_joined = 0;
  fiber_mark_completed(T, G.R);
  VASSERT(!G.sched_bad && G.parks + G.scheduled <= 1, "C04.finish: the finisher parks as the mailbox or wakes the waiting joiner, once");
  if (G.scheduled == 1) VASSERT(*(void**)&ME.result == G.R && ME.state == FIBER_STATE_READY, "C04.finish: the return value is written into the waiting joiner before it is woken");
  if (G.parks == 1) VASSERT(*(void**)&T->result == G.R, "C04.finish: the return value is in place before the finisher parks as the mailbox");
  if (G.ds_seen == FIBER_DETACH_NONE) VASSERT(G.parks == 1, "C04.finish: with no joiner yet the finisher parks as the mailbox (it is reclaimed only after join or detach)");
  if (G.ds_seen == FIBER_DETACH_WAIT_TO_JOIN) VASSERT(G.scheduled == 1, "C04.finish: a waiting joiner is woken");
  VASSERT(T->state == FIBER_STATE_DONE, "C04.finish: the fiber ends DONE");
  VCANARY("mark_completed can return");
}
