/* C20 — multi-waiter signal: fiber_multi_signal_wait / raise / raise_strict (woven /repo/include/fiber_signal.h).
 * State  the pair (counter, head), head in { NULL (nothing), RAISED, list of waiter nodes }.
 * Guarantee  my only write to the pair is ONE successful CAS incrementing the counter, which is one of
 *   MARK     head in {NULL, RAISED} -> RAISED                     (raise when nobody waits: pending raises coalesce)
 *   POP      head = node n -> n->next as it is at the CAS instant  (raise releases exactly the first waiter)
 *   CONSUME  RAISED -> NULL                                        (wait accepts a pending raise, does not sleep)
 *   ENQUEUE  head h (not RAISED) -> my node with next = h          (wait registers itself, then parks)
 * raise: POP => the popped fiber is made READY and scheduled exactly once, and only after it has set the READY_TO_WAKE marker (it is
 *   then saved, C01); returns 1.  MARK => nobody is scheduled; returns 0.  A raise never MARKs while a waiter is listed (never dropped),
 *   never releases two.   wait: ENQUEUE => WAITING, marker location handed to the manager, exactly one park, scratch cleared afterwards.
 */
#include "verif_rt.h"  /* (groups.py passes -DVERIF_LOOP_FLAG) */
#include "machine_specific.h" /* FIRST: verification copy (contract body for compare_and_swap2) */
#include "fiber.h"
#include "fiber_manager.h"
#define K_NONE 0
#define K_MARK 1
#define K_POP 2
#define K_CONSUME 3
#define K_ENQUEUE 4
typedef struct {
  int strict, waiter_role;
  int kind; mpsc_fifo_node_t* taken;
  int scheduled, sched_bad, yields, yield_bad, saw_ready;
  uintptr_t l_counter; mpsc_fifo_node_t* l_head; mpsc_fifo_node_t* l_headnext; mpsc_fifo_node_t* l_mynext;
} ghost_t;
ghost_t G;
mpsc_fifo_node_t WN1, WN2, MYNODE;
fiber_t ME, F1, F2;
fiber_manager_t VM0;
#define RAISEDP ((mpsc_fifo_node_t*)(intptr_t)-1)
#define POOLH(p) ((p) == 0 || (p) == RAISEDP || (p) == &WN1 || (p) == &WN2)
#define POOLN(p) ((p) == 0 || (p) == &WN1 || (p) == &WN2)
#define SCNT(s) (*(uintptr_t*)&(s)->data.counter)
#define SHEAD(s) (*(mpsc_fifo_node_t**)&(s)->data.head)
#include "fiber_signal.h" /* woven */
#include "C20/cas2.h"
int verif_cas2_entry(volatile pointer_pair_t* loc, const pointer_pair_t* o, const pointer_pair_t* n) { return verif_cas2(loc, o, n); }
fiber_multi_signal_t S;
#define CNT SCNT(&S)
#define HEAD SHEAD(&S)
static mpsc_fifo_node_t* canon(mpsc_fifo_node_t* p) { return p == &WN1 ? &WN1 : p == &WN2 ? &WN2 : p == &MYNODE ? &MYNODE : p == RAISEDP ? RAISEDP : 0; }
static int is_node(mpsc_fifo_node_t* p) { return p != 0 && p != RAISEDP; }
static void spec_snap(void) {
  HEAD = canon(HEAD); WN1.next = canon(WN1.next); WN2.next = canon(WN2.next); MYNODE.next = canon(MYNODE.next);
  WN1.data = &F1; WN2.data = &F2;
  G.l_counter = CNT; G.l_head = HEAD; G.l_headnext = is_node(HEAD) ? HEAD->next : 0; G.l_mynext = MYNODE.next;
}
static void spec_step(int site) {
  if (CNT == G.l_counter && HEAD == G.l_head) return;
  VASSERT(G.kind == K_NONE && CNT == G.l_counter + 1, "G: my write to the (counter, head) pair is one successful CAS that increments the counter");
  if (!G.waiter_role) {
    if (!is_node(G.l_head)) { VASSERT(!G.strict && HEAD == RAISEDP, "G: with nobody waiting a raise can only leave the signal RAISED (raise_strict changes nothing)"); G.kind = K_MARK; }
    else { VASSERT(HEAD == G.l_headnext, "G: with a waiter listed a raise releases exactly the first one: installs its CURRENT next"); G.kind = K_POP; G.taken = G.l_head; }
  } else {
    if (G.l_head == RAISEDP) { VASSERT(HEAD == 0, "G: wait consumes a pending raise (RAISED -> nothing)"); G.kind = K_CONSUME; }
    else { VASSERT(HEAD == &MYNODE && MYNODE.next == G.l_head, "G: wait registers its own node in front of the current list"); G.kind = K_ENQUEUE; }
  }
}
static void spec_env(int site) {
  /* the sleeper I popped finishes going to sleep at some point (its successor sets the marker after the switch) */
  if (G.kind == K_POP && verif_bool()) { if (G.taken == &WN1) F1.scratch = FIBER_SIGNAL_READY_TO_WAKE; else if (G.taken == &WN2) F2.scratch = FIBER_SIGNAL_READY_TO_WAKE; }
  if (verif_bool()) return;    /* nobody touched the pair */
  uintptr_t c2 = verif_u64(); VASSUME(c2 > CNT && c2 < (1ull << 61)); CNT = c2;
  unsigned k = verif_pick(4); HEAD = k == 0 ? 0 : k == 1 ? RAISEDP : k == 2 ? &WN1 : &WN2;
  WN1.next = verif_bool() ? &WN2 : 0; WN2.next = verif_bool() ? &WN1 : 0;
}
static void spec_read(int site, void* addr) {
  if (G.kind == K_POP && ((G.taken == &WN1 && addr == (void*)&F1.scratch && F1.scratch == FIBER_SIGNAL_READY_TO_WAKE) ||
                          (G.taken == &WN2 && addr == (void*)&F2.scratch && F2.scratch == FIBER_SIGNAL_READY_TO_WAKE))) G.saw_ready = 1;
}
#include "verif_point.inc"
fiber_manager_t* fiber_manager_get(void) { return &VM0; }
void fiber_scheduler_schedule(fiber_scheduler_t* s, fiber_t* f) {
  fiber_t* want = G.taken == &WN1 ? &F1 : G.taken == &WN2 ? &F2 : 0;
  if (G.kind != K_POP || f != want || G.scheduled || f->state != FIBER_STATE_READY || !G.saw_ready || f->mpsc_fifo_node != G.taken) G.sched_bad = 1;
  G.scheduled++;
}
void fiber_manager_yield(fiber_manager_t* m) {
  if (m != &VM0 || G.kind != K_ENQUEUE || ME.state != FIBER_STATE_WAITING || VM0.set_wait_location != (void**)&ME.scratch ||
      VM0.set_wait_value != FIBER_SIGNAL_READY_TO_WAKE || G.yields) G.yield_bad = 1;
  G.yields++;
  ME.scratch = FIBER_SIGNAL_READY_TO_WAKE; ME.state = FIBER_STATE_RUNNING; /* ... parked, marker set by the successor, later woken by a raise */
}
static void init_any(int waiter, int strict) {
  G.waiter_role = waiter; G.strict = strict; G.kind = K_NONE; G.taken = 0; G.scheduled = G.sched_bad = G.yields = G.yield_bad = G.saw_ready = 0;
  CNT = verif_u64(); VASSUME(CNT < (1ull << 60));
  unsigned k = verif_pick(4); HEAD = k == 0 ? 0 : k == 1 ? RAISEDP : k == 2 ? &WN1 : &WN2;
  WN1.next = verif_bool() ? &WN2 : 0; WN2.next = verif_bool() ? &WN1 : 0; WN1.data = &F1; WN2.data = &F2;
  F1.scratch = verif_bool() ? FIBER_SIGNAL_READY_TO_WAKE : 0; F2.scratch = verif_bool() ? FIBER_SIGNAL_READY_TO_WAKE : 0;
  F1.state = F2.state = FIBER_STATE_WAITING; F1.mpsc_fifo_node = 0; F2.mpsc_fifo_node = 0;
  VM0.current_fiber = &ME; VM0.scheduler = (fiber_scheduler_t*)&VM0; VM0.set_wait_location = 0; VM0.set_wait_value = 0;
  ME.state = FIBER_STATE_RUNNING; ME.mpsc_fifo_node = &MYNODE; ME.scratch = (void*)verif_u64(); MYNODE.next = (mpsc_fifo_node_t*)0; MYNODE.data = 0;
  spec_snap();
}
void h_raise(void) { init_any(0, 0); int r = fiber_multi_signal_raise(&S); verif_sync(-1);
  VASSERT(!G.sched_bad && ((r == 1 && G.kind == K_POP && G.scheduled == 1) || (r == 0 && G.kind == K_MARK && G.scheduled == 0)),
          "H: raise releases exactly one listed waiter (READY, after its marker, scheduled once) and returns 1, or leaves the signal RAISED and returns 0");
  VCANARY("raise can return"); }
void h_raise_strict(void) { init_any(0, 1); fiber_multi_signal_raise_strict(&S); verif_sync(-1);
  VASSERT(!G.sched_bad && G.kind == K_POP && G.scheduled == 1, "H: raise_strict returns only after releasing exactly one waiter");
  VCANARY("raise_strict can return"); }
void h_wait(void) { init_any(1, 0); fiber_multi_signal_wait(&S); verif_sync(-1);
  VASSERT(!G.yield_bad && ((G.kind == K_CONSUME && G.yields == 0) || (G.kind == K_ENQUEUE && G.yields == 1 && ME.scratch == 0)) && MYNODE.data == &ME,
          "H: wait either consumes a pending raise without sleeping, or registers itself and parks exactly once (WAITING, marker location handed over), clearing the marker afterwards");
  VCANARY("wait can return"); }
/* init: from ANY memory content the signal starts with no waiter, not raised, stamp 0 */
void h_init(void) {
  static fiber_multi_signal_t X __attribute__((aligned(16))); memset(&X, (int)verif_u64(), sizeof(X));
  fiber_multi_signal_init(&X);
  VASSERT(X.data.head == 0 && X.data.counter == 0, "H: C20 multi signal init: no waiter, not raised, stamp 0, whatever the memory held");
  VCANARY("multi signal init can return");
}
