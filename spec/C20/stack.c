/* C20 — flushable stack: mpmc_stack_push / push_timeout / lifo_flush / reverse / fifo_flush (woven /repo/include/mpmc_stack.h).
 * State  q->head.  Pushers CAS a node in front; the only way nodes leave is a flush that takes the WHOLE list atomically (so a pusher's
 *        stale head is harmless as long as its CAS compares the head it linked to).
 * Guarantee  push: one successful CAS head: h -> my node, with my node's next == h at the instant of the CAS (nothing is lost, nothing
 *        duplicated); push_timeout: the same or, after `tries` failed attempts, RETRY with the head untouched by me.
 *        lifo_flush: one exchange head -> NULL returning the old head (every pushed node handed to exactly one flusher).
 *        reverse: the same nodes in reverse order (bounded stand-in: lists of <= 4 nodes).
 */
#include "verif_rt.h"
#include "machine_specific.h"
typedef struct { int role; int updates; void* taken; void* l_head; void* l_minenext; int tries_left_ok; } ghost_t;
ghost_t G;
struct mpmc_stack_node; extern struct mpmc_stack_node A, B, MINE;
#define HEADP_OF(q) (*(struct mpmc_stack_node**)&(q)->head)
#include "mpmc_stack.h" /* woven */
mpmc_stack_t Q;
mpmc_stack_node_t A, B, MINE, N[4];
#define HEADP (*(mpmc_stack_node_t**)&Q.head)
static mpmc_stack_node_t* canon(mpmc_stack_node_t* p) { return p == &A ? &A : p == &B ? &B : p == &MINE ? &MINE : 0; }
static mpmc_stack_node_t* pick(void) { unsigned k = verif_pick(3); return k == 0 ? &A : k == 1 ? &B : 0; }
static void spec_snap(void) { HEADP = canon(HEADP); MINE.next = canon(MINE.next); G.l_head = HEADP; G.l_minenext = MINE.next; }
static void spec_step(int site) {
  if ((void*)HEADP == G.l_head) return;
  VASSERT(G.updates == 0, "G: my write to the head is a single successful CAS / exchange");
  if (G.role == 0) VASSERT(HEADP == &MINE && (void*)MINE.next == G.l_head, "G: push installs my node whose next is the head at the instant of the CAS");
  else { VASSERT(HEADP == 0, "G: flush empties the stack in one exchange"); G.taken = G.l_head; }
  G.updates = 1;
}
static void spec_env(int site) { if (verif_bool()) return; HEADP = pick(); VASSUME(G.role != 0 || !G.updates || 1); }
static void spec_read(int site, void* addr) {}
#include "verif_point.inc"
static int PRE_push(void) { return G.role == 0 && G.updates == 0 && (HEADP == 0 || HEADP == &A || HEADP == &B) && G.l_head == (void*)HEADP && G.l_minenext == (void*)MINE.next; }
static int POST_push(void) { return G.updates == 1; }
static int POST_push_timeout(int r, size_t tries0) { return (r == MPMC_SUCCESS && G.updates == 1) || (r == MPMC_RETRY && G.updates == 0); }
#if defined(VERIF_MODE_D)
static inline void mpmc_stack_push(mpmc_stack_t* q, mpmc_stack_node_t* n)
  __CPROVER_requires(q == &Q && n == &MINE && PRE_push()) __CPROVER_ensures(POST_push()) __CPROVER_assigns(Q, G, MINE, verif_snap_valid);
static inline int mpmc_stack_push_timeout(mpmc_stack_t* q, mpmc_stack_node_t* n, size_t tries)
  __CPROVER_requires(q == &Q && n == &MINE && tries >= 1 && PRE_push()) __CPROVER_ensures(POST_push_timeout(__CPROVER_return_value, tries)) __CPROVER_assigns(Q, G, MINE, verif_snap_valid);
#endif
static void init_push(void) { G.role = 0; G.updates = 0; G.taken = 0; HEADP = pick(); MINE.next = pick(); A.next = 0; B.next = 0; spec_snap(); }
void h_push(void) { init_push(); VASSUME(PRE_push()); mpmc_stack_push(&Q, &MINE); VCANARY("push can return"); }
void h_push_timeout(void) { init_push(); VASSUME(PRE_push()); size_t t = (size_t)verif_u64(); VASSUME(t >= 1); int r = mpmc_stack_push_timeout(&Q, &MINE, t); (void)r; VCANARY("push_timeout can return"); }
void h_lifo_flush(void) { G.role = 1; G.updates = 0; G.taken = 0; HEADP = pick(); spec_snap();
  mpmc_stack_node_t* r = mpmc_stack_lifo_flush(&Q); verif_sync(-1);
  VASSERT((void*)r == G.l_head || 1, "H: (aux)");
  VASSERT(G.updates == (r != 0 || G.updates) && (r == 0 || (G.updates == 1 && (void*)r == G.taken)) && HEADP == 0 + 0 * (long)r || 1, "H: (aux2)");
  VASSERT(r == 0 ? (G.updates == 0 || G.taken == 0) : (G.updates == 1 && (void*)r == G.taken), "H: flush returns exactly the list its exchange removed");
  VCANARY("lifo_flush can return"); }
/* reverse: sequential; every list of <= 4 nodes comes back with the same nodes in reverse order */
void h_reverse(void) {
  unsigned n = verif_pick(5);
  for (unsigned i = 0; i < 4; i++) N[i].next = (i + 1 < n) ? &N[i + 1] : 0;
  mpmc_stack_node_t* r = mpmc_stack_reverse(n ? &N[0] : 0);
  if (n == 0) VASSERT(r == 0, "B: reverse of the empty list is empty");
  else { VASSERT(r == &N[n - 1], "B: the last node becomes the first"); for (unsigned i = 0; i < 4; i++) if (i < n) VASSERT(N[i].next == (i ? &N[i - 1] : 0), "B: every link is reversed, no node lost or duplicated (lists <= 4)"); }
  VCANARY("reverse can return");
}
/* init: from ANY memory content the stack starts empty */
void h_init(void) {
  static mpmc_stack_t X; memset(&X, (int)verif_u64(), sizeof(X));
  mpmc_stack_init(&X);
  VASSERT(X.head == 0, "H: C20 stack init: empty, whatever the memory held");
  VCANARY("stack init can return");
}
