/* TRUSTED contract of compare_and_swap2 (inline asm `lock cmpxchg16b`, dropped by goto-cc): a strong 128-bit compare-and-swap,
 * atomic, preceded by an interference point like every other shared access.  ret in {0,1}; ret == 1 <=> *loc == *orig at the
 * instant of the operation, and then *loc := *new; ret == 0 leaves *loc unchanged; *orig and *new are not written. */
#ifndef C20_CAS2_H
#define C20_CAS2_H
extern void verif_point_at(int site, void* addr);
static int verif_cas2(volatile pointer_pair_t* loc, const pointer_pair_t* o, const pointer_pair_t* n) {
  verif_point_at(-7777, (void*)loc);
  if (loc->low == o->low && loc->high == o->high) { loc->low = n->low; loc->high = n->high; return 1; }
  return 0;
}
#endif
