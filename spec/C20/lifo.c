/* C20 — counter-stamped double-word CAS: the lock-free LIFO.  mpmc_lifo_push / mpmc_lifo_pop (woven /repo/include/mpmc_lifo.h);
 * compare_and_swap2 by its trusted contract (cas2.h).
 *
 * State   the pair (counter, head).  INV: every successful update increments the counter (so: counter unchanged <=> no update happened).
 * Pool    A, B, C = nodes that may be in the stack; MINE = the node I push.  Interference (any number of other pushers/poppers, nodes
 *         popped, reused and pushed again): if the counter is unchanged NOTHING changed (head, and the next of the nodes in the stack);
 *         otherwise head is any pool node or NULL and the `next` fields of the pool nodes are arbitrary pool nodes.
 * Guarantee  my only write to the pair is ONE successful CAS that increments the counter and
 *         pop:  installs the CURRENT head's CURRENT next (as it is at the instant of the CAS) and returns that head;
 *         push: installs my node, whose next is the CURRENT head at the instant of the CAS.
 *         A pop that returns NULL saw head == NULL and wrote nothing.
 */
#include "verif_rt.h"  /* (groups.py passes -DVERIF_LOOP_FLAG) */
#include "machine_specific.h" /* FIRST: the verification copy whose compare_and_swap2 body is the contract call (include guard keeps the original out) */
#include "mpsc_fifo.h" /* node type */
typedef struct {
  int is_push; int updates; int saw_null;
  uintptr_t l_counter; mpsc_fifo_node_t* l_head; mpsc_fifo_node_t* l_headnext; mpsc_fifo_node_t* l_minenext;
  mpsc_fifo_node_t* taken;
} ghost_t;
ghost_t G;
mpsc_fifo_node_t A, B, C, MINE;
typedef mpsc_fifo_node_t mpmc_lifo_node_t_fwd;
/* call-free shape predicates for the loop contracts (they name the function's own parameter `lifo`) */
#define POOL3(p) ((p) == 0 || (p) == &A || (p) == &B || (p) == &C)
#define LCNT(l) (*(uintptr_t*)&(l)->data.counter)
#define LHEAD(l) (*(mpsc_fifo_node_t**)&(l)->data.head)
#include "mpmc_lifo.h" /* woven; includes the machine_specific.h whose compare_and_swap2 body is the contract call */
#include "C20/cas2.h"
int verif_cas2_entry(volatile pointer_pair_t* loc, const pointer_pair_t* o, const pointer_pair_t* n) { return verif_cas2(loc, o, n); }
mpmc_lifo_t L;
#define CNT (*(uintptr_t*)&L.data.counter)
#define HEAD (*(mpmc_lifo_node_t**)&L.data.head)
static mpmc_lifo_node_t* pick(void) { unsigned k = verif_pick(4); return k == 0 ? &A : k == 1 ? &B : k == 2 ? &C : 0; }
/* CBMC pitfall: a pointer produced by a havoc (loop contract) and merely ASSUMED equal to &A does not dereference to A.  Pointer-
   valued shared fields are therefore re-materialised by selection from the pool whenever the snapshot is taken. */
static mpsc_fifo_node_t* canon(mpsc_fifo_node_t* p) { return p == &A ? &A : p == &B ? &B : p == &C ? &C : p == &MINE ? &MINE : 0; }
static void spec_snap(void) {
  HEAD = canon(HEAD); A.next = canon(A.next); B.next = canon(B.next); C.next = canon(C.next); MINE.next = canon(MINE.next);
  G.l_counter = CNT; G.l_head = HEAD; G.l_headnext = HEAD ? HEAD->next : 0; G.l_minenext = MINE.next;
}
static void spec_step(int site) {
  if (CNT == G.l_counter && HEAD == G.l_head) return;
  VASSERT(G.updates == 0 && CNT == G.l_counter + 1, "G: my write to the (counter, head) pair is one successful CAS that increments the counter");
  if (G.is_push) {
    VASSERT(HEAD == &MINE && MINE.next == G.l_head, "G: push installs my node whose next is the head at the instant of the CAS");
  } else {
    VASSERT(G.l_head != 0 && HEAD == G.l_headnext, "G: pop installs the CURRENT next of the CURRENT head (never a stale snapshot)");
    G.taken = G.l_head;
  }
  G.updates = 1;
}
static void spec_env(int site) {
  if (verif_bool()) return;                    /* nothing happened: counter, head and the stack's links are as they were */
  uintptr_t c2 = verif_u64(); VASSUME(c2 > CNT && c2 < (1ull << 61)); CNT = c2;   /* A6: no 2^64 wrap */
  HEAD = pick();
  A.next = pick(); B.next = pick(); C.next = pick();   /* nodes were popped, reused, pushed again in any order */
  if (G.is_push) VASSUME(HEAD != &MINE); else if (G.updates) VASSUME(HEAD != G.taken || 1);
}
static void spec_read(int site, void* addr) { if (!G.is_push && addr == (void*)&L.data.head && HEAD == 0) G.saw_null = 1; }
#include "verif_point.inc"

static void init_any(int is_push) {
  G.is_push = is_push; G.updates = 0; G.saw_null = 0; G.taken = 0;
  CNT = verif_u64(); VASSUME(CNT < (1ull << 60)); HEAD = pick(); A.next = pick(); B.next = pick(); C.next = pick(); MINE.next = pick();
  spec_snap();
}
void h_pop(void) { init_any(0); mpmc_lifo_node_t* r = mpmc_lifo_pop(&L); verif_sync(-1);
  if (r == 0) VASSERT(G.updates == 0 && G.saw_null, "H: pop returns NULL only after seeing an empty stack, with nothing changed");
  else VASSERT(G.updates == 1 && r == G.taken, "H: pop returns exactly the node its CAS removed (handed to one taker)");
  VCANARY("pop can return"); }
void h_push(void) { init_any(1); mpmc_lifo_push(&L, &MINE); verif_sync(-1);
  VASSERT(G.updates == 1, "H: push links its node in with exactly one successful CAS");
  VCANARY("push can return"); }
/* init: from ANY memory content the stack starts empty with stamp 0 */
void h_init(void) {
  static mpmc_lifo_t X __attribute__((aligned(16))); memset(&X, (int)verif_u64(), sizeof(X));
  mpmc_lifo_init(&X);
  VASSERT(X.data.head == 0 && X.data.counter == 0, "H: C20 lifo init: empty, stamp 0, whatever the memory held");
  VCANARY("lifo init can return");
}
