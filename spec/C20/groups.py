CAS2 = dict(file='include/machine_specific.h', replace_body={'compare_and_swap2': 'extern int verif_cas2_entry(volatile pointer_pair_t*, const pointer_pair_t*, const pointer_pair_t*); return verif_cas2_entry(location, original_value, new_value);'})
WEAVE = [CAS2,
         dict(file='include/dist_fifo.h', parse='test/test_dist_fifo.c', fns=['dist_fifo_push', 'dist_fifo_trypop']),
         dict(file='include/fiber_signal.h', parse='test/test_channel.c', fns=['fiber_multi_signal_wait', 'fiber_multi_signal_raise', 'fiber_multi_signal_raise_strict'], loops='loops.json'),
         dict(file='include/mpmc_stack.h', parse='test/test_mpmc_stack.c', fns=['mpmc_stack_push', 'mpmc_stack_push_timeout', 'mpmc_stack_lifo_flush', 'mpmc_stack_reverse', 'mpmc_stack_fifo_flush'], loops='loops.json'),
         dict(file='include/mpmc_lifo.h', parse='test/test_mpmc_lifo.c', fns=['mpmc_lifo_push', 'mpmc_lifo_pop'], loops='loops.json')]
GROUPS = [
    dict(name='lifo_pop', tu='lifo.c', harness='h_pop', mode='H', loop_contracts=True, defs=['-DVERIF_LOOP_FLAG'], functions=['mpmc_lifo_pop']),
    dict(name='lifo_push', tu='lifo.c', harness='h_push', mode='H', loop_contracts=True, defs=['-DVERIF_LOOP_FLAG'], functions=['mpmc_lifo_push']),
    dict(name='msig_raise', tu='multisignal.c', harness='h_raise', mode='H', loop_contracts=True, defs=['-DVERIF_LOOP_FLAG'], functions=['fiber_multi_signal_raise']),
    dict(name='msig_raise_strict', tu='multisignal.c', harness='h_raise_strict', mode='H', loop_contracts=True, defs=['-DVERIF_LOOP_FLAG'], functions=['fiber_multi_signal_raise_strict']),
    dict(name='msig_wait', tu='multisignal.c', harness='h_wait', mode='H', loop_contracts=True, defs=['-DVERIF_LOOP_FLAG'], functions=['fiber_multi_signal_wait']),
    dict(name='stack_push', tu='stack.c', harness='h_push', mode='D', enforce='mpmc_stack_push', functions=['mpmc_stack_push'], defs=['-DVERIF_LOOP_FLAG']),
    dict(name='stack_push_timeout', tu='stack.c', harness='h_push_timeout', mode='D', enforce='mpmc_stack_push_timeout', functions=['mpmc_stack_push_timeout'], defs=['-DVERIF_LOOP_FLAG']),
    dict(name='stack_lifo_flush', tu='stack.c', harness='h_lifo_flush', mode='H', functions=['mpmc_stack_lifo_flush'], defs=['-DVERIF_LOOP_FLAG'], unwind=2, exact_unwind=True),
    dict(name='stack_reverse_le4', tu='stack.c', harness='h_reverse', mode='H', functions=['mpmc_stack_reverse'], defs=['-DVERIF_LOOP_FLAG'], unwind=6, bounded=True, bound='lists of <= 4 nodes'),
    dict(name='distfifo_trypop', tu='distfifo.c', harness='h_trypop', mode='H', functions=['dist_fifo_trypop'], unwind=4, exact_unwind=True),
    dict(name='lifo_init', tu='lifo.c', harness='h_init', mode='H', defs=['-DVERIF_LOOP_FLAG'], functions=['mpmc_lifo_init'], unwind=2, exact_unwind=True),
    dict(name='msig_init', tu='multisignal.c', harness='h_init', mode='H', defs=['-DVERIF_LOOP_FLAG'], functions=['fiber_multi_signal_init'], unwind=2, exact_unwind=True),
    dict(name='stack_init', tu='stack.c', harness='h_init', mode='H', defs=['-DVERIF_LOOP_FLAG'], functions=['mpmc_stack_init'], unwind=2, exact_unwind=True),
    dict(name='distfifo_init', tu='distfifo.c', harness='h_init', mode='H', functions=['dist_fifo_init'], unwind=2, exact_unwind=True),
    dict(name='distfifo_push', tu='distfifo.c', harness='h_push', mode='H', functions=['dist_fifo_push'], unwind=4, exact_unwind=True),
]
TRUSTED = ['compare_and_swap2 (inline asm lock cmpxchg16b): TRUSTED contract = strong 128-bit CAS (spec/C20/cas2.h); its asm body is replaced by the contract call in the verification copy of machine_specific.h']
ASSUMPTIONS = ['A6 the 64-bit stamp counter does not wrap', 'SC']
