/* C20 — the single-pusher / multi-popper FIFO with a counter-stamped head.  dist_fifo_push / dist_fifo_trypop (woven
 * /repo/include/dist_fifo.h); compare_and_swap2 by its trusted contract.
 * Pool   D (the dummy at the head), N1 (first element), N2, NEW (the node being pushed).
 * Interference  other poppers: a successful CAS increments the counter and moves head along the links; the popper that moved head past a
 *         node owns it and overwrites its data (it copies the next element's data into it).  While the counter is unchanged no popper
 *         has done anything: head, and the data of the first element, are stable.  The single pusher appends at any time (a NULL next
 *         becomes a link; no counter involved).
 * Guarantee (popper)  one CAS that increments the counter and installs the CURRENT successor of the CURRENT head; afterwards exactly one
 *         write: the taken-out dummy receives the value the first element had AT THE INSTANT OF THE CAS (read before it - afterwards that
 *         node is the new dummy and may already carry another popper's copy).  RETRY/EMPTY change nothing.
 */
#include "verif_rt.h"  /* (groups.py passes -DVERIF_LOOP_FLAG) */
#include "machine_specific.h" /* FIRST: verification copy with the contract body for compare_and_swap2 */
#include "mpsc_fifo.h"
typedef struct {
  int updates, data_writes; int saw_null_next; void* val_at_cas; mpsc_fifo_node_t* taken;
  uintptr_t l_counter; mpsc_fifo_node_t* l_head; mpsc_fifo_node_t* l_headnext; void* l_n1data; void* l_ddata; void* l_n2data;
  mpsc_fifo_node_t* l_dnext; mpsc_fifo_node_t* l_n1next; mpsc_fifo_node_t* l_tail; mpsc_fifo_node_t* l_newnext;
  int pusher, terminated, linked, tail_set;
} ghost_t;
ghost_t G;
mpsc_fifo_node_t D, N1, N2, NEW;
#include "dist_fifo.h" /* woven */
#include "C20/cas2.h"
int verif_cas2_entry(volatile pointer_pair_t* loc, const pointer_pair_t* o, const pointer_pair_t* n) { return verif_cas2(loc, o, n); }
dist_fifo_t F;
#define CNT (*(uintptr_t*)&F.head.pointer.counter)
#define HEAD (*(mpsc_fifo_node_t**)&F.head.pointer.node)
static mpsc_fifo_node_t* canon(mpsc_fifo_node_t* p) { return p == &D ? &D : p == &N1 ? &N1 : p == &N2 ? &N2 : p == &NEW ? &NEW : 0; }
static void spec_snap(void) {
  G.l_counter = CNT; G.l_head = HEAD; G.l_headnext = HEAD ? HEAD->next : 0; G.l_n1data = N1.data; G.l_ddata = D.data; G.l_n2data = N2.data;
  G.l_dnext = D.next; G.l_n1next = N1.next; G.l_tail = F.tail; G.l_newnext = NEW.next;
}
static void spec_step(int site) {
  if (!G.pusher) {
    VASSERT(D.next == G.l_dnext && N1.next == G.l_n1next && F.tail == G.l_tail, "G: a popper writes no link and not the tail");
    if (CNT != G.l_counter || HEAD != G.l_head) {
      VASSERT(G.updates == 0 && CNT == G.l_counter + 1 && G.l_head != 0 && HEAD == G.l_headnext && HEAD != 0, "G: one CAS that increments the counter and installs the CURRENT successor of the CURRENT head");
      G.updates = 1; G.taken = G.l_head;
      G.val_at_cas = (HEAD == &N1) ? G.l_n1data : (HEAD == &N2) ? G.l_n2data : G.l_ddata;   /* the first element's value at the instant of the CAS */
    }
    mpsc_fifo_node_t* nd[3] = { &D, &N1, &N2 }; void* ld[3] = { G.l_ddata, G.l_n1data, G.l_n2data };
    for (int i = 0; i < 3; i++) if (nd[i]->data != ld[i]) {
      VASSERT(G.updates == 1 && G.data_writes == 0 && nd[i] == G.taken, "G: the only data write is into the node I took out, after my CAS, once");
      G.data_writes = 1;
    }
  } else {
    VASSERT(CNT == G.l_counter && HEAD == G.l_head && D.data == G.l_ddata && N1.data == G.l_n1data, "G: the pusher never touches head, counter or queued data");
    if (NEW.next != G.l_newnext) { VASSERT(!G.linked && NEW.next == 0, "G: my node's next is only terminated, before it is linked"); G.terminated = 1; }
    if (N1.next != G.l_n1next) { VASSERT(!G.linked && G.l_tail == &N1 && G.l_n1next == 0 && N1.next == &NEW && NEW.next == 0, "G: link = NULL next of the tail node becomes my (terminated) node, once"); G.linked = 1; }
    if (D.next != G.l_dnext) { VASSERT(!G.linked && G.l_tail == &D && G.l_dnext == 0 && D.next == &NEW && NEW.next == 0, "G: link = NULL next of the tail node becomes my (terminated) node, once"); G.linked = 1; }
    if (F.tail != G.l_tail) { VASSERT(G.linked && !G.tail_set && F.tail == &NEW, "G: the tail moves to my node after the link, once"); G.tail_set = 1; }
  }
}
static void spec_env(int site) {
  if (!G.pusher) {
    /* the single pusher appends */
    if (D.next == 0 && verif_bool()) D.next = &N1;
    if (N1.next == 0 && verif_bool()) N1.next = &N2;
    if (verif_bool()) return;        /* no popper did anything: counter, head, first element's data unchanged */
    uintptr_t c2 = verif_u64(); VASSUME(c2 > CNT && c2 < (1ull << 61)); CNT = c2;
    /* head only moves forward along existing links */
    if (HEAD == &D && D.next == &N1 && verif_bool()) HEAD = &N1;
    if (HEAD == &N1 && N1.next == &N2 && verif_bool()) HEAD = &N2;
    N1.data = (void*)verif_u64(); N2.data = (void*)verif_u64();     /* nodes passed by other poppers get their copies */
    D.data = (void*)verif_u64();
    /* the node I took out is mine: nobody else writes it */
    if (G.updates) { if (G.taken == &D) D.data = G.l_ddata; else if (G.taken == &N1) N1.data = G.l_n1data; else if (G.taken == &N2) N2.data = G.l_n2data; }
  } else {
    /* poppers move head/counter and rewrite data of nodes they passed; they never touch links or the tail */
    if (verif_bool()) { uintptr_t c2 = verif_u64(); VASSUME(c2 > CNT && c2 < (1ull << 61)); CNT = c2; HEAD = verif_bool() ? &D : &N1; D.data = (void*)verif_u64(); }
  }
}
static void spec_read(int site, void* addr) {
  if (!G.pusher && ((addr == (void*)&D.next && D.next == 0) || (addr == (void*)&N1.next && N1.next == 0) || (addr == (void*)&N2.next && N2.next == 0)))
    G.saw_null_next = 1;   /* the node I took for the head had no successor when I looked */
}
#include "verif_point.inc"
void h_trypop(void) {
  G.pusher = 0; G.updates = G.data_writes = 0; G.saw_null_next = 0; G.taken = 0;
  CNT = verif_u64(); VASSUME(CNT < (1ull << 60)); HEAD = &D; D.next = verif_bool() ? &N1 : 0; N1.next = (D.next && verif_bool()) ? &N2 : 0; N2.next = 0;
  D.data = (void*)verif_u64(); N1.data = (void*)verif_u64(); N2.data = (void*)verif_u64(); F.tail = N1.next ? &N2 : (D.next ? &N1 : &D);
  spec_snap();
  dist_fifo_node_t* r = dist_fifo_trypop(&F); verif_sync(-1);
  if (r == DIST_FIFO_EMPTY) VASSERT(G.updates == 0 && G.data_writes == 0 && G.saw_null_next, "H: EMPTY only after seeing no successor, nothing changed");
  else if (r == DIST_FIFO_RETRY) VASSERT(G.updates == 0 && G.data_writes == 0, "H: RETRY changes nothing");
  else VASSERT(r == G.taken && G.updates == 1 && r->data == G.val_at_cas, "H: trypop returns the old dummy carrying the first element's value as it was when the CAS took it (exactly one taker per element)");
  VCANARY("trypop can return");
}
void h_push(void) {
  G.pusher = 1; G.terminated = G.linked = G.tail_set = 0; G.updates = 0;
  CNT = verif_u64(); VASSUME(CNT < (1ull << 60)); HEAD = &D; F.tail = verif_bool() ? &D : &N1; D.next = F.tail == &D ? 0 : &N1; N1.next = 0;
  NEW.next = verif_bool() ? &D : 0; NEW.data = (void*)verif_u64(); spec_snap();
  dist_fifo_push(&F, &NEW); verif_sync(-1);
  VASSERT(G.linked && G.tail_set, "H: push terminates its node, links it behind the tail, then moves the tail");
  VCANARY("push can return");
}
/* init: from ANY memory content the queue starts empty: head (stamp 0) and tail on one zeroed dummy node */
void h_init(void) {
  static dist_fifo_t X __attribute__((aligned(16))); memset(&X, (int)verif_u64(), sizeof(X));
  int r = dist_fifo_init(&X);
  if (r) VASSERT(X.head.pointer.counter == 0 && X.head.pointer.node != 0 && X.head.pointer.node == X.tail && X.tail->next == 0, "H: C20 dist fifo init: empty (one dummy node, unlinked), stamp 0, whatever the memory held");
  else VASSERT(X.tail == 0, "H: C20 a failed dist fifo init leaves no node behind");
  VCANARY("dist fifo init can return");
}
