FNS = ['fiber_semaphore_wait', 'fiber_semaphore_trywait', 'fiber_semaphore_post_internal', 'fiber_semaphore_post']
WEAVE = [dict(file='src/fiber_semaphore.c', fns=FNS, loops='loops.json')]
PARK = ['fiber_manager_get', 'fiber_manager_wait_in_mpmc_queue', 'fiber_manager_wake_from_mpmc_queue', 'fiber_yield']
GROUPS = [
    dict(name='wait', tu='semaphore.c', harness='h_wait', mode='D', enforce='fiber_semaphore_wait', replace=PARK, functions=['fiber_semaphore_wait']),
    dict(name='trywait', tu='semaphore.c', harness='h_trywait', mode='D', enforce='fiber_semaphore_trywait', replace=PARK, functions=['fiber_semaphore_trywait']),
    dict(name='post_internal', tu='semaphore.c', harness='h_post_internal', mode='D', enforce='fiber_semaphore_post_internal', replace=PARK, functions=['fiber_semaphore_post_internal']),
    dict(name='post', tu='semaphore.c', harness='h_post', mode='D', enforce='fiber_semaphore_post', replace=PARK + ['fiber_semaphore_post_internal'], functions=['fiber_semaphore_post']),
    dict(name='init', tu='semaphore.c', harness='h_init', mode='H', functions=['fiber_semaphore_init'], unwind=2, exact_unwind=True),
    dict(name='lemmas', tu='lemmas.c', kind='lemmas', harness='', no_native='pure lemma'),
]
ASSUMPTIONS = ['A5 |counter|, waiters and posts in flight below 2^30',
               'park/unpark contract (mpmc variant, DESIGN.md 4.2) TRUSTED here: wake_from_mpmc_queue(…,0) pops at most one announced waiter; enforced under C01']
# obligation groups of other properties' specifications that this property also rests on (its anchors name those files); see DESIGN.md 11.2
IMPORTS = [dict(prop='C01', groups=['wait_in_mpmc', 'wake_from_mpmc', 'maintenance', 'maintenance_migrating_unlock', 'node_pool']), dict(prop='C13', groups=['fifo_trypop', 'fifo_push', 'fifo_init'])]
