/* C06 — fiber semaphore.  Shared predicates for refinement (semaphore.c) and lemmas (lemmas.c).
 *
 * Shared  c = semaphore->counter (int)
 * Ghost   W    announced waiters (counter decremented at <= 0) not yet popped by a poster
 *         Gp   waiters popped by a poster whose compensating increment has not happened yet
 *         TR   popped (admitted) waiters that have not resumed yet
 *         infl posts begun and not yet delivered
 *         me ∈ {IDLE, ANN, ADM (admitted), POSTING, POPPED, DONE}
 * INV     c >= 0 ⇒ W + Gp = 0;  c < 0 ⇒ −c = W + Gp;  all >= 0
 *         me = ANN ⇒ W + TR >= 1;  me = POSTING ⇒ infl >= 1;  me = POPPED ⇒ Gp >= 1
 *         (lemma layer adds the conservation law  S + max(c,0) + infl = init + P)
 * Actions WAIT_DIRECT c>=1: c--, S++ | WAIT_ANNOUNCE c<=0: c--, W++ | TRY_OK c>=1: c--, S++ | POST_BEGIN P++, infl++
 *         POST_CAS c>=0: c++, infl-- | POST_POP W>=1: W--, Gp++, TR++, S++, infl-- | POST_INC Gp>=1: c++, Gp-- | RESUME TR>=1: TR--
 */
#ifndef C06_SPEC_H
#define C06_SPEC_H
#include "verif_rt.h"
#define IDLE 0
#define ANN 1
#define ADM 2
#define POSTING 3
#define POPPED 4
#define DONE 5
#define CAP 0x3FFFFFFF /* A5 */
typedef struct { int W, Gp, TR, infl; } sm_abs_t;
#define SM_INV(c, W, Gp, TR, infl, mode)                                                               \
  ((W) >= 0 && (Gp) >= 0 && (TR) >= 0 && (infl) >= 0 && (W) <= CAP && (Gp) <= CAP && (TR) <= CAP && (infl) <= CAP && \
   (c) <= CAP && (c) >= -CAP - CAP && ((c) < 0 || (W) + (Gp) == 0) && ((c) >= 0 || -(c) == (W) + (Gp)) && \
   (mode) >= IDLE && (mode) <= DONE && ((mode) != ANN || (W) + (TR) >= 1) && ((mode) != POSTING || (infl) >= 1) && \
   ((mode) != POPPED || (Gp) >= 1))
static int sm_inv(int c, sm_abs_t a, int mode) { return SM_INV(c, a.W, a.Gp, a.TR, a.infl, mode); }
static int sm_rely(int mode, int c, sm_abs_t a, int c2, sm_abs_t a2) { return sm_inv(c2, a2, mode); }
#endif
