/* C06 lemma layer: conservation law with explicit S (admissions), P (posts begun), init; two actors. */
#include "verif_rt.h"
#include "C06/spec.h"
typedef struct { long long S, P, init; } tot_t;
static long long max0(int c) { return c > 0 ? c : 0; }
static int inv2(int c, sm_abs_t s, tot_t t, int ma, int mb) {
  return sm_inv(c, s, ma) && sm_inv(c, s, mb) && t.S >= 0 && t.P >= 0 && t.init >= 0 && t.S <= CAP && t.P <= CAP && t.init <= CAP &&
         t.S + max0(c) + s.infl == t.init + t.P &&
         (!(ma == ANN && mb == ANN) || s.W + s.TR >= 2) && (!(ma == POSTING && mb == POSTING) || s.infl >= 2) &&
         (!(ma == POPPED && mb == POPPED) || s.Gp >= 2);
}
static int act(int which, int* c, sm_abs_t* s, tot_t* t, int* m) {
  switch (which) {
    case 0: if (*m != IDLE || *c < 1 || t->S >= CAP) return 0; *c -= 1; t->S += 1; *m = ADM; return 1;                        /* WAIT_DIRECT / TRY_OK */
    case 1: if (*m != IDLE || *c > 0 || s->W >= CAP || *c <= -CAP) return 0; *c -= 1; s->W += 1; *m = ANN; return 1; /* WAIT_ANNOUNCE */
    case 2: if (*m != IDLE || s->infl >= CAP || t->P >= CAP) return 0; t->P += 1; s->infl += 1; *m = POSTING; return 1;  /* POST_BEGIN */
    case 3: if (*m != POSTING || *c < 0 || *c >= CAP) return 0; *c += 1; s->infl -= 1; *m = DONE; return 1;     /* POST_CAS */
    case 4: if (*m != POSTING || s->W < 1 || s->TR >= CAP || t->S >= CAP || s->Gp >= CAP) return 0;                                /* POST_POP */
            s->W -= 1; s->Gp += 1; s->TR += 1; t->S += 1; s->infl -= 1; *m = POPPED; return 1;
    case 5: if (*m != POPPED) return 0; *c += 1; s->Gp -= 1; *m = DONE; return 1;                               /* POST_INC */
    case 6: if (*m != ANN || s->TR < 1) return 0; s->TR -= 1; *m = ADM; return 1;                               /* RESUME */
    case 7: if (*m != ADM && *m != DONE) return 0; *m = IDLE; return 1;                                         /* call returns */
  }
  return 0;
}
#define ANY int c = verif_int(); sm_abs_t s; s.W = verif_int(); s.Gp = verif_int(); s.TR = verif_int(); s.infl = verif_int(); \
  tot_t t; t.S = verif_int(); t.P = verif_int(); t.init = verif_int(); int ma = verif_int(), mb = verif_int();
void lemma_L1_actions_preserve_inv(void) {
  ANY VASSUME(inv2(c, s, t, ma, mb));
  int w = (int)verif_pick(8); VASSUME(act(w, &c, &s, &t, &mb));
  VASSERT(inv2(c, s, t, ma, mb), "L: L1 every action preserves INV incl. the conservation law S + max(c,0) + infl = init + P");
  VCANARY("L1 premises satisfiable");
}
void lemma_L2_guarantee_inside_rely(void) {
  ANY VASSUME(inv2(c, s, t, ma, mb));
  int c0 = c; sm_abs_t s0 = s;
  int w = (int)verif_pick(8); VASSUME(act(w, &c, &s, &t, &mb));
  VASSERT(sm_rely(ma, c0, s0, c, s), "L: L2 every action of another fiber is inside my rely");
  VCANARY("L2 premises satisfiable");
}
void lemma_L4_no_over_admission(void) {
  ANY VASSUME(inv2(c, s, t, ma, mb));
  VASSERT(t.S <= t.init + t.P, "L: L4 successful waits never exceed initial value + posts begun");
  VCANARY("L4a premises satisfiable");
}
void lemma_L4_no_lost_post(void) {
  ANY VASSUME(inv2(c, s, t, ma, mb));
  /* a blocked (announced, unpopped) waiter and no post in progress: then no unit is available */
  VASSERT(!(s.W > 0 && s.infl == 0 && s.Gp == 0) || max0(c) == 0, "L: L4 nobody stays blocked while units are available and no post is in progress");
  /* and a post in progress with a blocked waiter can always make progress towards it: POP is enabled */
  if (mb == POSTING && s.W > 0 && s.TR < CAP && t.S < CAP && s.Gp < CAP) { VASSERT(act(4, &c, &s, &t, &mb) == 1, "L: L4 a post with a blocked waiter can pop it"); }
  VCANARY("L4b premises satisfiable");
}
void lemma_L4_quiescent_value(void) {
  ANY VASSUME(inv2(c, s, t, ma, mb));
  VASSUME(s.infl == 0 && s.W == 0 && s.Gp == 0);
  VASSERT(c >= 0 && c == t.init + t.P - t.S, "L: L4 once activity ceases the value is initial + posts - successful waits");
  VCANARY("L4c premises satisfiable");
}
void lemma_L4_post_inc_lands_negative(void) {
  ANY VASSUME(inv2(c, s, t, ma, mb) && mb == POPPED);
  VASSERT(c < 0, "L: L4 while a popped waiter awaits its compensating increment the counter is negative");
  VCANARY("L4d premises satisfiable");
}
