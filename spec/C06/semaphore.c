/* C06 — refinement proofs of fiber_semaphore_wait / trywait / post_internal / post (woven /repo/src/fiber_semaphore.c) */
#include "verif_rt.h"
#include "fiber_semaphore.h"
#include "fiber_manager.h"
#include "C06/spec.h"

typedef struct {
  sm_abs_t a;
  int mode;
  int lastc;
  int admitted;   /* admissions of me in this call (direct, try, or by resume) */
  int announced;  /* WAIT_ANNOUNCE by me */
  int parks, pops, delivered, yields;
} ghost_t;
fiber_semaphore_t SEM;
ghost_t G;
fiber_manager_t VM0;
#define CUR_C (*(int*)&SEM.counter)
#define LIVE_INV SM_INV(CUR_C, G.a.W, G.a.Gp, G.a.TR, G.a.infl, G.mode)
#define CNT0 (G.admitted == 0 && G.announced == 0 && G.parks == 0 && G.pops == 0 && G.delivered == 0 && G.yields == 0)

#include "src/fiber_semaphore.c"

static void spec_snap(void) { G.lastc = CUR_C; }
static void spec_step(int site) {
  int c = CUR_C, l = G.lastc;
  if (c == l) return;
  if (c == l - 1 && G.mode == IDLE) {
    if (l >= 1) { G.mode = ADM; G.admitted += 1; }                         /* WAIT_DIRECT / TRY_OK: takes a unit */
    else { VASSUME(G.a.W < CAP); G.a.W += 1; G.mode = ANN; G.announced += 1; } /* WAIT_ANNOUNCE */
    return;
  }
  if (c == l + 1 && G.mode == POSTING) { /* POST_CAS */
    VASSERT(l >= 0, "G: a post that has not popped a waiter increments only a non-negative counter");
    VASSUME(l < CAP); /* capacity A5 */
    G.a.infl -= 1; G.mode = DONE; G.delivered += 1; return;
  }
  if (c == l + 1 && G.mode == POPPED) { /* POST_INC */
    VASSERT(l < 0, "G: the increment that compensates a popped waiter lands on a negative counter");
    G.a.Gp -= 1; G.mode = DONE; G.delivered += 1; return;
  }
  VASSERT(0, "G: my write to the counter is one of the declared actions (wait/trywait decrement while idle, post increment exactly once)");
}
static void havoc_env(void) {
  int c2 = verif_int(); sm_abs_t a2;
  a2.W = verif_int(); a2.Gp = verif_int(); a2.TR = verif_int(); a2.infl = verif_int();
  VASSUME(sm_rely(G.mode, CUR_C, G.a, c2, a2));
  CUR_C = c2; G.a = a2;
}
static void spec_env(int site) { havoc_env(); }
static void spec_read(int site, void* addr) {}
#include "verif_point.inc"

static int inv_now(void) { return sm_inv(CUR_C, G.a, G.mode) && G.lastc == CUR_C; }
static int PRE_mode(int m) { return G.mode == m && CNT0 && inv_now(); }
/* wait: admitted exactly once: directly (its decrement saw >= 1) or after announcing and parking exactly once */
static int POST_wait(int ret) {
  return ret == FIBER_SUCCESS && G.mode == ADM && inv_now() && G.admitted == 1 && G.announced >= 0 && G.announced <= 1 &&
         G.parks == G.announced && G.pops == 0 && G.delivered == 0;
}
/* trywait: never parks or announces; SUCCESS iff it took a unit (counter was >= 1), ERROR without effect */
static int POST_trywait(int ret) {
  if (G.parks != 0 || G.announced != 0 || G.pops != 0 || G.delivered != 0 || !inv_now()) return 0;
  if (ret == FIBER_SUCCESS) return G.mode == ADM && G.admitted == 1;
  return ret == FIBER_ERROR && G.mode == IDLE && G.admitted == 0;
}
/* post_internal: delivers its unit exactly once: CAS on a non-negative counter, or pop one waiter then increment */
static int POST_post_internal(int ret) {
  return G.mode == DONE && inv_now() && G.delivered == 1 && G.pops >= 0 && G.pops <= 1 && ret == G.pops && G.parks == 0 &&
         G.admitted == 0 && G.announced == 0 && G.yields == 0;
}
static int POST_post(int ret) {
  return ret == FIBER_SUCCESS && G.mode == DONE && inv_now() && G.delivered == 1 && G.pops >= 0 && G.pops <= 1 && G.parks == 0 &&
         G.admitted == 0 && G.announced == 0 && G.yields == G.pops;
}
static int PRE_park(fiber_manager_t* m, mpmc_fifo_t* q) { return m == &VM0 && q == &SEM.waiters && G.mode == ANN; }
static int POST_park(ghost_t o) {
  return G.mode == ADM && inv_now() && G.admitted == o.admitted + 1 && G.announced == o.announced && G.parks == o.parks + 1 &&
         G.pops == o.pops && G.delivered == o.delivered && G.yields == o.yields;
}
static int PRE_wake0(fiber_manager_t* m, mpmc_fifo_t* q, int count) { return m == &VM0 && q == &SEM.waiters && count == 0 && G.mode == POSTING; }
static int POST_wake0(ghost_t o, int ret) {
  return (ret == 0 || ret == 1) && G.mode == (ret ? POPPED : POSTING) && inv_now() && G.pops == o.pops + ret && G.admitted == o.admitted &&
         G.announced == o.announced && G.parks == o.parks && G.delivered == o.delivered && G.yields == o.yields;
}
static int POST_yield(ghost_t o) {
  return G.mode == o.mode && inv_now() && G.pops == o.pops && G.admitted == o.admitted && G.announced == o.announced && G.parks == o.parks &&
         G.delivered == o.delivered && G.yields == o.yields + 1;
}
#if defined(VERIF_MODE_D)
#define SMC(fn, pre, post) int fn(fiber_semaphore_t* semaphore) __CPROVER_requires(semaphore == &SEM && (pre)) \
  __CPROVER_ensures(post) __CPROVER_assigns(SEM.counter, G);
SMC(fiber_semaphore_wait, PRE_mode(IDLE), POST_wait(__CPROVER_return_value))
SMC(fiber_semaphore_trywait, PRE_mode(IDLE), POST_trywait(__CPROVER_return_value))
SMC(fiber_semaphore_post_internal, PRE_mode(POSTING), POST_post_internal(__CPROVER_return_value))
SMC(fiber_semaphore_post, PRE_mode(POSTING), POST_post(__CPROVER_return_value))
fiber_manager_t* fiber_manager_get(void) __CPROVER_ensures(__CPROVER_return_value == &VM0) __CPROVER_assigns();
void fiber_manager_wait_in_mpmc_queue(fiber_manager_t* manager, mpmc_fifo_t* fifo)
  __CPROVER_requires(PRE_park(manager, fifo)) __CPROVER_ensures(POST_park(__CPROVER_old(G))) __CPROVER_assigns(SEM.counter, G);
int fiber_manager_wake_from_mpmc_queue(fiber_manager_t* manager, mpmc_fifo_t* fifo, int count)
  __CPROVER_requires(PRE_wake0(manager, fifo, count)) __CPROVER_ensures(POST_wake0(__CPROVER_old(G), __CPROVER_return_value))
  __CPROVER_assigns(SEM.counter, G);
int fiber_yield(void) __CPROVER_ensures(POST_yield(__CPROVER_old(G))) __CPROVER_assigns(SEM.counter, G);
#else
fiber_manager_t* fiber_manager_get(void) { return &VM0; }
void fiber_manager_wait_in_mpmc_queue(fiber_manager_t* manager, mpmc_fifo_t* fifo) {
  VASSERT(PRE_park(manager, fifo), "C: park only after announcing");
  ghost_t o = G; G.mode = ADM; G.admitted += 1; G.parks += 1; havoc_env(); spec_snap(); VASSUME(POST_park(o));
}
int fiber_manager_wake_from_mpmc_queue(fiber_manager_t* manager, mpmc_fifo_t* fifo, int count) {
  VASSERT(PRE_wake0(manager, fifo, count), "C: try to pop one waiter (count 0) only while my post is undelivered");
  ghost_t o = G; int ret = verif_bool();
  if (ret) { G.mode = POPPED; G.pops += 1; }
  havoc_env(); spec_snap(); VASSUME(POST_wake0(o, ret));
  return ret;
}
int fiber_yield(void) { ghost_t o = G; G.yields += 1; havoc_env(); spec_snap(); VASSUME(POST_yield(o)); return FIBER_SUCCESS; }
#endif

static void init_any(void) {
  CUR_C = verif_int(); G.a.W = verif_int(); G.a.Gp = verif_int(); G.a.TR = verif_int(); G.a.infl = verif_int(); G.mode = verif_int();
  G.admitted = G.announced = G.parks = G.pops = G.delivered = G.yields = 0; spec_snap();
}
#define HARN(name, fn, pre, post, text) void name(void) { init_any(); VASSUME(pre); int r = fn(&SEM); VASSERT(post, "H: " text); VCANARY(#fn " can return"); }
HARN(h_wait, fiber_semaphore_wait, PRE_mode(IDLE), POST_wait(r), "wait is admitted exactly once: directly on a unit, or announced + parked once")
HARN(h_trywait, fiber_semaphore_trywait, PRE_mode(IDLE), POST_trywait(r), "trywait never blocks and succeeds only by taking a unit")
HARN(h_post_internal, fiber_semaphore_post_internal, PRE_mode(POSTING), POST_post_internal(r), "post delivers its unit exactly once")
HARN(h_post, fiber_semaphore_post, PRE_mode(POSTING), POST_post(r), "post = post_internal (+ courtesy yield)")
/* init: from ANY memory content the initialiser establishes the state every proof above starts from */
static mpmc_fifo_node_t INITNODE; static int init_nodes_taken, init_nodes_returned;
mpmc_fifo_node_t* fiber_manager_get_mpmc_node(void) { init_nodes_taken++; return &INITNODE; }   /* by contract: a fresh node nobody else holds */
void fiber_manager_return_mpmc_node(mpmc_fifo_node_t* n) { init_nodes_returned++; }
void h_init(void) {
  static fiber_semaphore_t X; memset(&X, (int)verif_u64(), sizeof(X)); memset(&INITNODE, (int)verif_u64(), sizeof(INITNODE));
  int v = (int)verif_u64(); init_nodes_taken = init_nodes_returned = 0;
  int r = fiber_semaphore_init(&X, v);
  if (r == FIBER_SUCCESS) VASSERT(X.counter == v && X.waiters.head == &INITNODE && X.waiters.tail == &INITNODE && INITNODE.prev == 0 && INITNODE.next == 0 && INITNODE.value == 0 &&
                                  init_nodes_taken == 1 && init_nodes_returned == 0,
                                  "H: C06 init: the counter is the requested value and the wait queue is empty (one dummy node, unlinked), whatever the memory held");
  else VASSERT(r == FIBER_ERROR && init_nodes_returned == 1, "H: C06 a failed init gives its node back");
  VCANARY("init can return");
}
