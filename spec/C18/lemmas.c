/* C18 lemma layer (L1-L4 of DESIGN.md 1.2): pure bit-vector, loop-free, all
 * 2^32 x 2^32 lock words, wrap-around included.  Actor a is "me", actor b is
 * any other contender.  The predicates are the ones the refinement proofs in
 * spinlock.c use (same macros). */
#include "verif_rt.h"
#include "C18/spec.h"
typedef struct { int mode; uint32_t t; } actor_t;
static int valid(actor_t a) { return a.mode == IDLE || a.mode == WAIT || a.mode == HOLD; }
static int inv2(actor_t a, actor_t b, uint32_t T, uint32_t U) {
  return valid(a) && valid(b) && INV_ME(a.mode, a.t, T, U) && INV_ME(b.mode, b.t, T, U) &&
         ((a.mode == IDLE || b.mode == IDLE) || a.t != b.t);
}
/* one action of actor b; returns 0 if the chosen action is not enabled */
static int act(int which, actor_t* b, uint32_t* T, uint32_t* U) {
  switch (which) {
    case 0: /* TAKE */
      if (b->mode != IDLE) return 0;
      if ((uint32_t)(*U + 1 - *T) == 0xFFFFFFFFu) return 0; /* capacity A5 */
      b->t = *U; *U += 1; b->mode = (*T == b->t) ? HOLD : WAIT; return 1;
    case 1: /* ACQ */
      if (b->mode != WAIT || *T != b->t) return 0;
      b->mode = HOLD; return 1;
    case 2: /* REL */
      if (b->mode != HOLD) return 0;
      *T += 1; b->mode = IDLE; return 1;
  }
  return 0;
}
#define ANY_STATE actor_t a, b; uint32_t T, U; a.mode = verif_int(); a.t = verif_u32(); \
  b.mode = verif_int(); b.t = verif_u32(); T = verif_u32(); U = verif_u32();

/* L1: every action of any actor preserves the two-actor invariant */
void lemma_L1_actions_preserve_inv(void) {
  ANY_STATE
  VASSUME(inv2(a, b, T, U));
  int w = (int)verif_pick(3);
  VASSUME(act(w, &b, &T, &U));
  VASSERT(inv2(a, b, T, U), "L: L1 every action preserves INV for two arbitrary actors");
  VCANARY("L1 premises satisfiable");
}
/* L2: an action of another actor is inside my rely */
void lemma_L2_guarantee_inside_rely(void) {
  ANY_STATE
  VASSUME(inv2(a, b, T, U));
  uint32_t T0 = T, U0 = U;
  int w = (int)verif_pick(3);
  VASSUME(act(w, &b, &T, &U));
  VASSERT(rely_me(a.mode, a.t, T0, U0, T, U), "L: L2 every action of another actor is contained in my rely");
  VCANARY("L2 premises satisfiable");
}
/* L3: rely is reflexive and transitive (one havoc per point is enough) */
void lemma_L3_rely_reflexive(void) {
  ANY_STATE
  VASSUME(valid(a) && INV_ME(a.mode, a.t, T, U));
  VASSERT(rely_me(a.mode, a.t, T, U, T, U), "L: L3 rely is reflexive");
  VCANARY("L3r premises satisfiable");
}
void lemma_L3_rely_transitive(void) {
  ANY_STATE
  uint32_t T1 = verif_u32(), U1 = verif_u32(), T2 = verif_u32(), U2 = verif_u32();
  VASSUME(valid(a) && INV_ME(a.mode, a.t, T, U));
  VASSUME(rely_me(a.mode, a.t, T, U, T1, U1) && rely_me(a.mode, a.t, T1, U1, T2, U2));
  VASSERT(rely_me(a.mode, a.t, T, U, T2, U2), "L: L3 rely is transitive");
  VCANARY("L3t premises satisfiable");
}
/* L4: the property statement follows from the invariant and the actions */
void lemma_L4_mutual_exclusion(void) {
  ANY_STATE
  VASSUME(inv2(a, b, T, U));
  VASSERT(!(a.mode == HOLD && b.mode == HOLD), "L: L4 two contenders never hold the lock together");
  VCANARY("L4a premises satisfiable");
}
void lemma_L4_trylock_only_on_free_lock(void) {
  /* a TAKE performed with T == U (what trylock's CAS checks) means no other contender holds or waits */
  ANY_STATE
  VASSUME(inv2(a, b, T, U) && T == U);
  VASSERT(a.mode == IDLE && b.mode == IDLE, "L: L4 T == U means nobody holds and nobody is queued");
  VCANARY("L4b premises satisfiable");
}
void lemma_L4_fifo(void) {
  /* if my ticket is ahead of b's, then whatever happens while I wait, b's ticket is not served before mine */
  ANY_STATE
  uint32_t T2 = verif_u32(), U2 = verif_u32();
  VASSUME(inv2(a, b, T, U) && a.mode == WAIT && b.mode == WAIT && (uint32_t)(a.t - T) < (uint32_t)(b.t - T));
  VASSUME(rely_me(a.mode, a.t, T, U, T2, U2));
  VASSERT(T2 != b.t, "L: L4 tickets are served in the order taken (a later ticket is never served while an earlier one waits)");
  VCANARY("L4c premises satisfiable");
}
void lemma_L4_tickets_consecutive(void) {
  /* TAKE hands out exactly the value of U and increments it: tickets are consecutive, REL serves the next one */
  ANY_STATE
  VASSUME(inv2(a, b, T, U));
  uint32_t T0 = T, U0 = U;
  VASSUME(act(0, &b, &T, &U));
  VASSERT(b.t == U0 && U == (uint32_t)(U0 + 1) && T == T0, "L: L4 TAKE hands out the next ticket");
  VCANARY("L4d premises satisfiable");
}
