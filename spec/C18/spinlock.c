/* C18 — ticket spinlock.  Real code: /repo/src/fiber_spinlock.c (woven copy).
 *
 * Shared state   T = ticket (now serving), U = users (next ticket), uint32 each.
 * Ghost          me ∈ {IDLE, WAIT(t), HOLD(t)}; counters of my own actions.
 * Abstraction    the lock is owned by whoever holds ticket T while T != U.
 * INV(a)         a != IDLE ⇒ (t_a − T) mod 2^32 < (U − T) mod 2^32   (my ticket is outstanding)
 *                a = HOLD  ⇒ t_a = T
 *                capacity: (U − T) mod 2^32 ≠ 2^32 − 1                  (assumption A5)
 *                two actors that are not IDLE hold different tickets (lemma file).
 * Actions        TAKE  IDLE → WAIT(U); U++            (and HOLD at once when T = old U)
 *                ACQ   WAIT(t) ∧ observed T = t → HOLD(t)
 *                REL   HOLD(t) → IDLE; T++
 * RELY(me)       HOLD: T frozen.  WAIT(t): T advances but not past t.  U only grows.
 *                Always INV(me).  (lemmas.c: every action of another actor is inside it.)
 */
#include "verif_rt.h"
#include "fiber_spinlock.h"
#include "fiber_manager.h"

#include "C18/spec.h"

typedef struct {
  int mode;
  uint32_t t;       /* my ticket */
  uint32_t takes;   /* TAKE actions I performed in this call */
  uint32_t rels;    /* REL actions I performed in this call */
  int took_on_free; /* my TAKE happened with T == U (nobody held, nobody queued) */
  uint32_t lastT, lastU; /* snapshot of the shared word at my last point */
} ghost_t;

fiber_spinlock_t L; /* the lock under observation */
ghost_t G;
fiber_manager_t VM0; /* the calling thread's manager (thread-owned) */

#define CUR_T (*(uint32_t*)&L.state.counters.ticket)
#define CUR_U (*(uint32_t*)&L.state.counters.users)

#include "src/fiber_spinlock.c" /* the woven real code (its loop contract names G, L, inv_me) */

static void spec_snap(void) { G.lastT = CUR_T; G.lastU = CUR_U; }

static void spec_step(int site) {
  uint32_t T = CUR_T, U = CUR_U;
  if (T == G.lastT && U == G.lastU) return;
  if (T == G.lastT && U == (uint32_t)(G.lastU + 1) && G.mode == IDLE) { /* TAKE */
    /* capacity assumption A5: fewer than 2^32-1 tickets outstanding at any time */
    VASSUME((uint32_t)(U - T) != 0xFFFFFFFFu);
    G.t = G.lastU;
    G.takes += 1;
    G.took_on_free = (G.lastT == G.lastU);
    G.mode = (G.lastT == G.t) ? HOLD : WAIT;
    return;
  }
  if (U == G.lastU && T == (uint32_t)(G.lastT + 1) && G.mode == HOLD) { /* REL */
    G.mode = IDLE;
    G.rels += 1;
    return;
  }
  VASSERT(0, "G: my write to the lock word is TAKE (users+1 while idle) or REL (ticket+1 while holding)");
}

static void spec_env(int site) {
  uint32_t T2 = verif_u32(), U2 = verif_u32();
  VASSUME(rely_me(G.mode, G.t, CUR_T, CUR_U, T2, U2));
  CUR_T = T2;
  CUR_U = U2;
}

static void spec_read(int site, void* addr) {
  /* ACQ: I am about to observe that my ticket is being served */
  if (addr == (void*)&L.state.counters.ticket && G.mode == WAIT && CUR_T == G.t) G.mode = HOLD;
}

#include "verif_point.inc"

/* ---- predicates used by the contracts (taken from the property statement) ---- */
static int PRE_idle(void) { return G.mode == IDLE && G.takes == 0 && G.rels == 0 && inv_me(G.mode, G.t, CUR_T, CUR_U) && G.lastT == CUR_T && G.lastU == CUR_U; }
static int PRE_hold(void) { return G.mode == HOLD && G.takes == 0 && G.rels == 0 && inv_me(G.mode, G.t, CUR_T, CUR_U) && G.lastT == CUR_T && G.lastU == CUR_U; }
/* lock: I return holding, having taken exactly one ticket, and that ticket is the one being served */
static int POST_lock(int ret) { return ret == FIBER_SUCCESS && G.mode == HOLD && G.takes == 1 && G.rels == 0 && G.t == CUR_T && inv_me(G.mode, G.t, CUR_T, CUR_U); }
/* trylock: success only by taking a ticket at an instant when nobody held and nobody queued;
   failure leaves the lock word untouched by me */
static int POST_trylock(int ret) {
  if (ret == FIBER_SUCCESS) return G.mode == HOLD && G.takes == 1 && G.took_on_free && G.rels == 0 && inv_me(G.mode, G.t, CUR_T, CUR_U);
  return ret == FIBER_ERROR && G.mode == IDLE && G.takes == 0 && G.rels == 0 && inv_me(G.mode, G.t, CUR_T, CUR_U);
}
/* unlock: exactly one release */
static int POST_unlock(int ret) { return ret == FIBER_SUCCESS && G.mode == IDLE && G.rels == 1 && G.takes == 0 && inv_me(G.mode, G.t, CUR_T, CUR_U); }

#ifndef VERIF_NATIVE
/* ---- contracts (mode D: enforced by goto-instrument --dfcc) ---- */
int fiber_spinlock_lock(fiber_spinlock_t* spinlock)
  __CPROVER_requires(spinlock == &L && PRE_idle())
  __CPROVER_ensures(POST_lock(__CPROVER_return_value))
  __CPROVER_assigns(L, G, VM0.spin_count);
int fiber_spinlock_trylock(fiber_spinlock_t* spinlock)
  __CPROVER_requires(spinlock == &L && PRE_idle())
  __CPROVER_ensures(POST_trylock(__CPROVER_return_value))
  __CPROVER_assigns(L, G);
int fiber_spinlock_unlock(fiber_spinlock_t* spinlock)
  __CPROVER_requires(spinlock == &L && PRE_hold())
  __CPROVER_ensures(POST_unlock(__CPROVER_return_value))
  __CPROVER_assigns(L, G);
/* callee contract: the calling thread's own manager */
fiber_manager_t* fiber_manager_get(void)
  __CPROVER_ensures(__CPROVER_return_value == &VM0)
  __CPROVER_assigns();
#else
fiber_manager_t* fiber_manager_get(void) { return &VM0; }
#endif

/* ---- harnesses: arbitrary initial state; mode H adds the explicit checks ---- */
static void init_any(void) {
  CUR_T = verif_u32();
  CUR_U = verif_u32();
  G.mode = (int)verif_pick(3);
  G.t = verif_u32();
  G.takes = 0; G.rels = 0; G.took_on_free = 0;
  spec_snap();
}

void h_lock(void) {
  init_any();
  VASSUME(PRE_idle());
  int r = fiber_spinlock_lock(&L);
  VASSERT(POST_lock(r), "H: lock returns holding the ticket it took");
  VCANARY("lock can return");
}
void h_trylock(void) {
  init_any();
  VASSUME(PRE_idle());
  int r = fiber_spinlock_trylock(&L);
  VASSERT(POST_trylock(r), "H: trylock succeeds only on a free lock with nobody queued, else changes nothing");
  VCANARY("trylock can return");
}
void h_unlock(void) {
  init_any();
  VASSUME(PRE_hold());
  int r = fiber_spinlock_unlock(&L);
  VASSERT(POST_unlock(r), "H: unlock performs exactly one release");
  VCANARY("unlock can return");
}
/* init: from ANY memory content (a lock placed in recycled memory) the initialiser establishes the state every proof above starts from */
void h_init(void) {
  static fiber_spinlock_t X; memset(&X, (int)verif_u64(), sizeof(X));
  int r = fiber_spinlock_init(&X);
  VASSERT(r == FIBER_SUCCESS && X.state.blob == 0, "H: C18 init: ticket == users (free, nobody queued): the whole state word is 0, whatever the memory held");
  VCANARY("init can return");
}
