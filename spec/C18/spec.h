/* C18 shared predicates: used by the refinement proofs (spinlock.c) and by the lemma layer (lemmas.c) */
#ifndef C18_SPEC_H
#define C18_SPEC_H
#include "verif_rt.h"
#define IDLE 0
#define WAIT 1
#define HOLD 2
/* macro, not a function: loop invariants must be call-free for goto-instrument */
#define INV_ME(mode, t, T, U)                                              \
  ((uint32_t)((U) - (T)) != 0xFFFFFFFFu &&                                 \
   ((mode) == IDLE || (uint32_t)((t) - (T)) < (uint32_t)((U) - (T))) &&    \
   ((mode) != HOLD || (t) == (T)))
static int inv_me(int mode, uint32_t t, uint32_t T, uint32_t U) { return INV_ME(mode, t, T, U); }

/* what any number of other contenders may have done between two of my accesses:
   HOLD: `ticket` frozen.  WAIT(t): `ticket` advances but not past t.  Always INV(me) afterwards
   (my ticket stays outstanding; capacity).  Nothing else is promised. */
static int rely_me(int mode, uint32_t t, uint32_t T, uint32_t U, uint32_t T2, uint32_t U2) {
  uint32_t dT = T2 - T;
  if (mode == HOLD && dT != 0) return 0;
  if (mode == WAIT && dT > (uint32_t)(t - T)) return 0;
  return INV_ME(mode, t, T2, U2);
}
#endif
