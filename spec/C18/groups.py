# C18 — spinlock.  See spinlock.c for the invariant, actions, rely and contracts.
WEAVE = [
    dict(file='src/fiber_spinlock.c',
         fns=['fiber_spinlock_lock', 'fiber_spinlock_trylock', 'fiber_spinlock_unlock'],
         loops='loops.json'),
]
GROUPS = [
    dict(name='lock', tu='spinlock.c', harness='h_lock', mode='D', enforce='fiber_spinlock_lock',
         replace=['fiber_manager_get'], functions=['fiber_spinlock_lock'], timeout=300),
    dict(name='trylock', tu='spinlock.c', harness='h_trylock', mode='D', enforce='fiber_spinlock_trylock',
         functions=['fiber_spinlock_trylock'], timeout=300),
    dict(name='unlock', tu='spinlock.c', harness='h_unlock', mode='D', enforce='fiber_spinlock_unlock',
         functions=['fiber_spinlock_unlock'], timeout=300),
    dict(name='init', tu='spinlock.c', harness='h_init', mode='H', functions=['fiber_spinlock_init'], unwind=2, exact_unwind=True),
    dict(name='lemmas', tu='lemmas.c', kind='lemmas', harness='', timeout=120, no_native='pure lemma'),
]
ASSUMPTIONS = [
    'A5 fewer than 2^32-1 tickets outstanding at any instant (TAKE assumes the capacity clause)',
    'fiber_manager_get() returns the calling thread\'s own manager (contract; proved where C01 enforces it)',
]
