WEAVE = [dict(file='src/work_queue.c', fns=['work_queue_push', 'work_queue_get_work', 'work_queue_init'], loops='loops.json')]
GROUPS = [
    dict(name='push', tu='workqueue.c', harness='h_push', mode='D', enforce='work_queue_push', replace=['mpsc_fifo_push', 'mpsc_fifo_trypop'], functions=['work_queue_push'], no_native='callee contracts only in DFCC form'),
    dict(name='get_work', tu='workqueue.c', harness='h_get_work', mode='D', enforce='work_queue_get_work', replace=['mpsc_fifo_push', 'mpsc_fifo_trypop'], functions=['work_queue_get_work'], no_native='callee contracts only in DFCC form'),
    dict(name='init', tu='init.c', harness='h_init', mode='H', functions=['work_queue_init']),
    dict(name='lemmas', tu='lemmas.c', kind='lemmas', harness='', no_native='pure lemma'),
]
ASSUMPTIONS = ['A5 counters below 2^58', 'mpsc_fifo_push / mpsc_fifo_trypop by the contracts proved under C15 (each pushed node popped exactly once; NULL only when empty or a push is in flight)',
               'get_work is called only by the caller that was told START_WORKING (single consumer); out_count is private to it']
# obligation groups of other properties' specifications that this property also rests on (its anchors name those files); see DESIGN.md 11.2
IMPORTS = [dict(prop='C15', groups=['mpsc_push', 'mpsc_trypop'])]
