/* C17 — work_queue_init (woven /repo/src/work_queue.c): whatever the memory held before (a stack object, a recycled heap block, a queue that is
 * initialised again), an initialised queue has in_count == out_count == 0 — the election invariant in = announced - retired, out = handed - retired
 * starts from "nothing announced, nobody working"; otherwise no push is ever told START_WORKING and every item is stranded.  mpsc_fifo_init by contract. */
#include "verif_rt.h"
#include <stdlib.h>
#include "work_queue.h"
static int fifo_inits;
static int stub_fifo_init(mpsc_fifo_t* f);
#define mpsc_fifo_init(f) stub_fifo_init(f)
#define GETWORK_ASSIGNS wq->out_count   /* (get_work is proved in workqueue.c; unreachable here) */
#define GETWORK_INV 1
#include "src/work_queue.c" /* woven */
#undef mpsc_fifo_init
static void spec_snap(void) {}
static void spec_step(int site) {}
static void spec_env(int site) {}
static void spec_read(int site, void* addr) {}
#include "verif_point.inc"
static work_queue_t Q;
static int stub_fifo_init(mpsc_fifo_t* f) { if (f == &Q.fifo) fifo_inits++; return verif_bool(); }
void h_init(void) {
  *(long long*)&Q.in_count = (long long)verif_u64(); *(long long*)&Q.out_count = (long long)verif_u64(); fifo_inits = 0;   /* arbitrary previous contents */
  int r = work_queue_init(&Q);
  VASSERT(*(long long*)&Q.in_count == 0 && *(long long*)&Q.out_count == 0, "H: C17 init leaves in_count == out_count == 0 whatever the memory held before (nothing announced, nobody working)");
  VASSERT(fifo_inits == 1 && (r == 0 || r == 1), "H: C17 init initialises the queue's fifo once and reports its result");
  VCANARY("init can return");
}
