/* C17 lemma layer: the abstract work-queue actions; `active` = a worker role exists. */
#include "verif_rt.h"
#define CAP 0x03FFFFFFFFFFFFFFLL
typedef struct { long long in, out, pend, q, unc, ret0; int active; long long handed, announced; } st_t;
static int inv(st_t s) {
  return s.pend >= 0 && s.q >= 0 && (s.unc == 0 || s.unc == 1) && s.ret0 >= 0 && s.out >= 0 && s.in >= 0 && s.in <= CAP && s.pend <= CAP && s.q <= CAP && s.out <= CAP && s.ret0 <= CAP &&
         s.in == s.out + s.unc + s.ret0 + s.q + s.pend && (s.active == 0 || s.active == 1) && (s.active == (s.in > 0)) &&
         (s.active || (s.out == 0 && s.unc == 0 && s.ret0 == 0)) && s.handed >= 0 && s.announced >= 0 && s.handed <= CAP && s.announced <= CAP &&
         s.announced - s.handed == s.q + s.pend; /* every announced item is handed out at most once and none is lost */
}
static int act(int w, st_t* s, int* start, int* empty) {
  switch (w) {
    case 0: if (s->in >= CAP - 1 || s->announced >= CAP) return 0; *start = (s->in == 0); s->in++; s->pend++; s->announced++; if (*start) s->active = 1; return 1; /* ANNOUNCE */
    case 1: if (s->pend < 1) return 0; s->pend--; s->q++; return 1;                                        /* PUSH completes */
    case 2: if (!s->active || s->q < 1 || s->unc || s->ret0) return 0; s->q--; s->unc = 1; s->handed++; return 1; /* POP */
    case 3: if (!s->active || !s->unc) return 0; s->unc = 0; s->out++; return 1;                           /* COUNT */
    case 4: if (!s->active || s->unc || s->ret0 || s->out != s->in) return 0; s->ret0 = s->out; s->out = 0; return 1; /* RESET (saw out == in) */
    case 5: if (!s->active || s->unc || s->out) return 0; s->in -= s->ret0; s->ret0 = 0; if (s->in == 0) { s->active = 0; *empty = 1; } return 1; /* RETIRE */
  }
  return 0;
}
#define ANY st_t s; s.in = (long long)verif_u64(); s.out = (long long)verif_u64(); s.pend = (long long)verif_u64(); s.q = (long long)verif_u64(); \
  s.unc = (long long)verif_u64(); s.ret0 = (long long)verif_u64(); s.active = verif_int(); s.handed = (long long)verif_u64(); s.announced = (long long)verif_u64(); int start = 0, empty = 0;
void lemma_L1_actions_preserve_inv(void) {
  ANY VASSUME(inv(s)); int w = (int)verif_pick(6); VASSUME(act(w, &s, &start, &empty));
  VASSERT(inv(s), "L: L1 every action preserves INV (in = out + unc + ret0 + q + pend; active <=> in > 0; announced - handed = q + pend)");
  VCANARY("L1 premises satisfiable");
}
void lemma_L4_one_worker_at_a_time(void) {
  ANY VASSUME(inv(s)); int was = s.active; VASSUME(act(0, &s, &start, &empty));
  VASSERT(start == !was, "L: L4 a caller is told START_WORKING exactly when no worker is active");
  VCANARY("L4a premises satisfiable");
}
void lemma_L4_empty_only_when_all_handed_out(void) {
  ANY VASSUME(inv(s)); VASSUME(act(5, &s, &start, &empty));
  VASSERT(!empty || (s.q == 0 && s.pend == 0 && s.handed == s.announced), "L: L4 EMPTY only when every item announced so far has been handed out");
  VASSERT(empty || s.active, "L: L4 an item is never left queued without an active worker");
  VCANARY("L4b premises satisfiable");
}
