/* C17 — work queue.  Refinement of the real work_queue_push / work_queue_get_work (woven /repo/src/work_queue.c).
 *
 * Shared  in  = wq->in_count  (items announced and not yet retired)       out = wq->out_count (worker-private: handed out, not retired)
 * Ghost   pend  items announced (in_count incremented) whose mpsc push has not completed
 *         q     items completely pushed and not yet popped
 *         unc   items I (the worker) popped and have not yet counted in out_count (0/1)
 *         ret0  value of out_count I am in the middle of retiring (between `out_count = 0` and the atomic subtract)
 * INV     in = out + unc + ret0 + q + pend,  all >= 0;   a worker is active  <=>  in > 0
 * Actions ANNOUNCE in++ , pend++  (START_WORKING iff it moved in 0 -> 1: nobody was active)
 *         PUSH pend--, q++ (mpsc push)   POP q--, unc++ (mpsc pop, worker only)   COUNT out++, unc--
 *         RESET ret0 := out, out := 0    RETIRE in -= ret0, ret0 := 0 ; if in becomes 0 the worker role ends (EMPTY)
 * RELY    worker: out, unc, ret0 frozen; q only grows except by my pops; in only grows.  pusher: my announcement stays pending.
 */
#include "verif_rt.h"
#include "work_queue.h"
#define PUSHER 0
#define WORKER 1
#define CAP 0x03FFFFFFFFFFFFFFLL
typedef struct { long long pend, q, unc, ret0; } wq_abs_t;
typedef struct {
  wq_abs_t a;
  int role;
  long long lastin, lastout;
  int announced, elected, mypend, pushes;       /* pusher */
  int pops, counted, mid, drained;  /* worker; mid = between RESET and RETIRE */
} ghost_t;
work_queue_t WQ;
ghost_t G;
mpsc_fifo_node_t ITEM, POPPED;
work_queue_item_t* OUTP; /* where get_work stores the item */
#define CUR_IN (*(long long*)&WQ.in_count)
#define CUR_OUT (*(long long*)&WQ.out_count)
#define WQ_INV(in, out, pend, q, unc, ret0) \
  ((pend) >= 0 && (q) >= 0 && (unc) >= 0 && (unc) <= 1 && (ret0) >= 0 && (out) >= 0 && (in) >= 0 && (in) <= CAP && (pend) <= CAP && (q) <= CAP && \
   (ret0) <= CAP && (out) <= CAP && (in) == (out) + (unc) + (ret0) + (q) + (pend))
#define LIVE_INV (WQ_INV(CUR_IN, CUR_OUT, G.a.pend, G.a.q, G.a.unc, G.a.ret0) && (G.role != PUSHER || G.a.pend >= G.mypend) && \
                  (G.role != WORKER || CUR_IN >= 1 || G.drained))
static int inv_now(void) { return LIVE_INV && G.lastin == CUR_IN && G.lastout == CUR_OUT; }

/* the loop contract of get_work (named by loops.json) */
#define GETWORK_ASSIGNS WQ.in_count, WQ.out_count, G, verif_rmw, OUTP
#define GETWORK_INV (G.role == WORKER && G.a.unc == 0 && G.a.ret0 == 0 && G.pops == 0 && G.counted == 0 && G.mid == 0 && G.drained == 0 && LIVE_INV && G.lastin == CUR_IN && G.lastout == CUR_OUT)
#include "src/work_queue.c"

static void spec_snap(void) { G.lastin = CUR_IN; G.lastout = CUR_OUT; }
static void spec_step(int site) {
  long long in = CUR_IN, out = CUR_OUT;
  if (in == G.lastin && out == G.lastout) return;
  if (G.role == PUSHER && out == G.lastout && in == G.lastin + 1 && !G.announced) { /* ANNOUNCE */
    VASSUME(G.lastin < CAP - 1 && G.a.pend < CAP);
    G.announced = 1; G.elected = (G.lastin == 0); G.a.pend += 1; G.mypend = 1; return;
  }
  if (G.role == WORKER && in == G.lastin && out == G.lastout + 1 && G.a.unc == 1) { G.a.unc = 0; G.counted += 1; return; } /* COUNT */
  if (G.role == WORKER && in == G.lastin && out == 0 && G.a.ret0 == 0 && G.a.unc == 0) { G.a.ret0 = G.lastout; G.mid = 1; return; } /* RESET */
  if (G.role == WORKER && out == G.lastout && G.a.unc == 0 && in == G.lastin - G.a.ret0 && G.mid == 1) { /* RETIRE */
    G.a.ret0 = 0; G.mid = 0; if (in == 0) G.drained = 1; return;
  }
  VASSERT(0, "G: my write to in_count/out_count is ANNOUNCE (pusher), or COUNT / RESET / RETIRE (active worker)");
}
static void havoc_env(void) {
  long long in2 = (long long)verif_u64(), p2 = (long long)verif_u64(), q2 = (long long)verif_u64();
  /* others only announce and push; worker-private state is mine */
  VASSUME(in2 >= CUR_IN && WQ_INV(in2, CUR_OUT, p2, q2, G.a.unc, G.a.ret0));
  if (G.role == WORKER) VASSUME(q2 >= G.a.q);
  if (G.role == PUSHER) VASSUME(p2 >= G.mypend && (in2 >= 1 || !G.announced));
  /* once my retire drained the queue I am no longer the worker: anything may follow, but I do nothing more */
  CUR_IN = in2; G.a.pend = p2; G.a.q = q2;
}
static void spec_env(int site) { havoc_env(); }
static void spec_read(int site, void* addr) {}
#include "verif_point.inc"

static int PRE_push(void) { return G.role == PUSHER && !G.announced && !G.elected && G.mypend == 0 && G.pushes == 0 && inv_now(); }
/* push: announces once, pushes its item once; told START_WORKING exactly when its announcement moved in_count 0 -> 1 */
static int POST_push(int ret) { return G.announced == 1 && G.pushes == 1 && G.mypend == 0 && (ret == WORK_QUEUE_START_WORKING) == (G.elected == 1) &&
  (ret == WORK_QUEUE_START_WORKING || ret == WORK_QUEUE_QUEUED) && inv_now(); }
static int PRE_get(void) { return G.role == WORKER && CUR_IN >= 1 && G.a.unc == 0 && G.a.ret0 == 0 && G.pops == 0 && G.counted == 0 && G.mid == 0 && G.drained == 0 && inv_now(); }
/* get_work: MORE_WORK = exactly one item handed out and counted; EMPTY = my atomic subtract brought in_count to 0, i.e. at that
   instant every item announced so far had been handed out (q + pend = 0) — and the worker role ends exactly then */
static int POST_get(int ret, work_queue_item_t* out) {
  if (!inv_now() || G.a.unc != 0 || G.a.ret0 != 0 || G.mid != 0) return 0;
  if (ret == WORK_QUEUE_MORE_WORK) return G.pops == 1 && G.counted == 1 && out == &POPPED && !G.drained;
  return ret == WORK_QUEUE_EMPTY && G.pops == 0 && G.counted == 0 && G.drained == 1 && out == NULL;
}
static int PRE_mpush(mpsc_fifo_t* f, mpsc_fifo_node_t* n) { return f == &WQ.fifo && n == &ITEM && G.role == PUSHER && G.mypend == 1; }
static int POST_mpush(ghost_t o) { return G.mypend == 0 && G.pushes == o.pushes + 1 && G.announced == o.announced && G.elected == o.elected && G.role == o.role && inv_now(); }
static int PRE_mpop(mpsc_fifo_t* f) { return f == &WQ.fifo && G.role == WORKER && !G.drained && G.a.unc == 0; }
static int POST_mpop(ghost_t o, mpsc_fifo_node_t* r) {
  return (r == NULL || r == &POPPED) && G.role == o.role && G.counted == o.counted && G.mid == o.mid && G.drained == o.drained &&
         G.a.ret0 == o.a.ret0 && G.pops == o.pops + (r != NULL) && G.a.unc == (r != NULL) && inv_now();
}
#if defined(VERIF_MODE_D)
#define ASG __CPROVER_assigns(WQ.in_count, WQ.out_count, G, verif_rmw)
int work_queue_push(work_queue_t* wq, work_queue_item_t* item) __CPROVER_requires(wq == &WQ && item == &ITEM && PRE_push())
  __CPROVER_ensures(POST_push(__CPROVER_return_value)) ASG;
int work_queue_get_work(work_queue_t* wq, work_queue_item_t** out) __CPROVER_requires(wq == &WQ && out == &OUTP && PRE_get())
  __CPROVER_ensures(POST_get(__CPROVER_return_value, OUTP)) __CPROVER_assigns(WQ.in_count, WQ.out_count, G, verif_rmw, OUTP);
static inline void mpsc_fifo_push(mpsc_fifo_t* f, mpsc_fifo_node_t* new_node) __CPROVER_requires(PRE_mpush(f, new_node))
  __CPROVER_ensures(POST_mpush(__CPROVER_old(G))) __CPROVER_assigns(WQ.in_count, G);
static inline mpsc_fifo_node_t* mpsc_fifo_trypop(mpsc_fifo_t* f) __CPROVER_requires(PRE_mpop(f))
  __CPROVER_ensures(POST_mpop(__CPROVER_old(G), __CPROVER_return_value)) __CPROVER_assigns(WQ.in_count, G);
#endif
static void init_any(int role) {
  CUR_IN = (long long)verif_u64(); CUR_OUT = (long long)verif_u64();
  G.a.pend = (long long)verif_u64(); G.a.q = (long long)verif_u64(); G.a.unc = 0; G.a.ret0 = 0; G.role = role;
  G.announced = G.elected = G.mypend = G.pushes = G.pops = G.counted = G.mid = G.drained = 0; spec_snap();
}
void h_push(void) { init_any(PUSHER); VASSUME(PRE_push()); int r = work_queue_push(&WQ, &ITEM);
  VASSERT(POST_push(r), "H: push announces and enqueues once; START_WORKING iff it found no active worker (in_count 0 -> 1)"); VCANARY("push can return"); }
void h_get_work(void) { init_any(WORKER); VASSUME(PRE_get()); OUTP = NULL; int r = work_queue_get_work(&WQ, &OUTP);
  VASSERT(POST_get(r, OUTP), "H: get_work hands out exactly one item, or reports EMPTY exactly when its subtract drained in_count to 0"); VCANARY("get_work can return"); }
