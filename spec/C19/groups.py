import re, os
FNS = ['fiber_context_init', 'fiber_context_init_from_thread', 'fiber_context_destroy', 'fiber_context_alloc_stack', 'fiber_free_stack']
WEAVE = []   # woven per strategy below (the function set differs with the #ifdefs)
STACK = '-DFIBER_STACK_MALLOC'
# split_rmw off: a context under construction / destruction is private to its creator (no interference to model)
WEAVE = [dict(file='src/fiber_context.c', fns=FNS, cflags=['-DFIBER_STACK_MALLOC'], split_rmw=False),
         dict(file='src/fiber.c', fns=['fiber_create_no_sched', 'fiber_create_from_thread'], cflags=['-DFIBER_STACK_MALLOC'], split_rmw=False)]
GROUPS = [
    dict(name='init_malloc', tu='context.c', harness='h_init', mode='H', stack='-DFIBER_STACK_MALLOC', functions=['fiber_context_init', 'fiber_context_destroy'], bounded=True, unwind=2,
         bound='stack sizes 1024..1039 (every residue mod 16), every malloc alignment; the arithmetic lemma covers all sizes and base addresses', timeout=600),
] + [
    dict(name='init_mmap_%d' % sz, tu='context.c', harness='h_init', mode='H', stack='-DFIBER_STACK_MMAP', defs=['-DVSZ=%d' % sz], functions=['fiber_context_init', 'fiber_context_destroy'], bounded=True, unwind=2,
         bound='stack size %d (%d pages), page size 256 (the stack object must stay small for the solver); the sizing arithmetic for page size 4096 is lemma_page_rounding' % (sz, pages), timeout=900, thorough_only=(sz == 1024))
    for sz, pages in ((1024, 5), (1039, 6))
] + [
    dict(name='thread_context', tu='context.c', harness='h_thread_context', mode='H', stack='-DFIBER_STACK_MALLOC', functions=['fiber_context_init_from_thread', 'fiber_context_destroy'], unwind=2, exact_unwind=True),
    dict(name='create', tu='create.c', harness='h_create', mode='H', stack='-DFIBER_STACK_MALLOC', functions=['fiber_create_no_sched'], unwind=2, exact_unwind=True),
    dict(name='create_from_thread', tu='create.c', harness='h_create_from_thread', mode='H', stack='-DFIBER_STACK_MALLOC', functions=['fiber_create_from_thread'], unwind=2, exact_unwind=True),
    dict(name='lemma_frame_arith', tu='context.c', harness='lemma_frame_arith', mode='H', stack='-DFIBER_STACK_MALLOC', cls='lemma', functions=[]),
    dict(name='lemma_page_rounding', tu='context.c', harness='lemma_page_rounding', mode='H', stack='-DFIBER_STACK_MMAP', cls='lemma', functions=['fiber_round_to_page_size'], cbmc_flags=['--sat-solver', 'cadical'], timeout=300, bounded=True, bound='requests up to 2^32 bytes'),
]
def static_facts(repo, scratch):
    """asm frame lint: ties the switch assembly to the frame layout proved above"""
    src = open(os.path.join(repo, 'src/fiber_context.c')).read()
    m = re.search(r'#elif defined\(__x86_64__\) && defined\(FIBER_FAST_SWITCHING\)(.*?)\n#else', src, re.S)
    facts = []
    def fact(name, ok, text): facts.append(dict(name=name, ok=bool(ok), text=text))
    if not m:
        fact('asm-section', False, 'x86-64 fast-switching section not found'); return facts
    sec = m.group(1)
    a = re.search(r'__asm__ volatile\((.*?)\n\s*:\s*\n', sec, re.S)
    ins = re.findall(r'"\s*([a-z]+)\s+([^"\\]*?)\\n', a.group(1)) if a else []
    pushes = [o.strip().lstrip('%') for i, o in ins if i == 'pushq']
    pops = [o.strip().lstrip('%') for i, o in ins if i == 'popq']
    callee = ['rbp', 'rbx', 'r12', 'r13', 'r14', 'r15']
    fact('asm-push-set', pushes[:1] == ['rax'] and sorted(pushes[1:]) == sorted(callee), 'the switch pushes the resume rip and exactly the SysV callee-saved registers: ' + ' '.join(pushes))
    fact('asm-pop-reverse', pops == list(reversed(pushes[1:])), 'the switch pops them in exactly the reverse order: ' + ' '.join(pops))
    d = dict((o.split(',')[1].strip().lstrip('%'), int(re.match(r'(\d+)\(', o.strip()).group(1))) for i, o in ins if i == 'movq' and re.match(r'\d+\(%\[to\]\)', o.strip()))
    fact('asm-rip-slot', d.get('rcx') == 8 * len(pops), 'rip is loaded from %d(to) = 8 * number of popped registers (slot 6 of the frame fiber_context_init builds)' % d.get('rcx', -1))
    fact('asm-param-slot', d.get('rdi') == 8 * len(pops) + 16, 'the argument is loaded from %d(to) (slot 8)' % d.get('rdi', -1))
    fact('asm-skip-rip', any(i == 'add' and o.replace(' ', '').startswith('$8,%%rsp') for i, o in ins), 'after the pops rsp skips the rip slot by 8 (entry sees the dummy return address, 16-byte ABI alignment)')
    fact('asm-memory-clobber', '"memory"' in sec[sec.find('__asm__'):], 'the asm statement carries a memory clobber')
    return facts
TRUSTED = ['fiber_context_swap (inline asm): executing it preserves callee-saved registers, stack pointer and stack contents - TRUSTED; only its frame constants are linted against the proven layout',
           '__splitstack_* (libgcc) for the split-stack strategy: not covered (the pinned build uses it; malloc and mmap strategies are verified)',
           'fiber_context_init / fiber_context_destroy inside create.c: by the contract proved in context.c (a failed init has released its own stack; destroy releases a live context once); fiber_destroy is under contract in C01 (maintenance)']
ASSUMPTIONS = ['mmap strategy: fiber_context_init / destroy verified against an abstract mmap / mprotect / munmap with page size 256 (init_mmap, bounded: the real 4096 puts the byte-level stack object out of the solver\'s reach); the sizing arithmetic for page size 4096 is lemma_page_rounding',
               'stack_size >= FIBER_MIN_STACK_SIZE (documented minimum; nothing enforces it - below it the frame would not fit)',
               'i386 and ucontext back ends not covered (not built by the pinned configuration)']
