/* C19 — contexts and stacks: fiber_context_init, fiber_context_init_from_thread, fiber_context_destroy (woven /repo/src/fiber_context.c,
 * x86-64 fast-switching variant) for the malloc and mmap stack strategies.
 * Contract (C-level clauses of the statement)
 *   a new context starts its function with the given argument on a correctly aligned private stack:
 *     frame = 9 slots at the saved stack pointer sp: sp[0..5] = 0 (r15 r14 r13 r12 rbx rbp), sp[6] = run_function (rip), sp[7] = NULL
 *     (dummy return address), sp[8] = param; sp is 16-byte aligned; the whole frame lies inside [ctx_stack, ctx_stack + ctx_stack_size);
 *     nothing outside the stack object is written; is_thread = 0.  (The asm loads rip from 48(sp) and the argument from 64(sp): static fact.)
 *   the stack is released exactly once, with the strategy's own call and the size it was allocated with; never for a thread context.
 * Not decided here: that executing the switch assembly preserves registers and stack contents (TRUSTED; no contract reaches into asm).
 */
#include "verif_rt.h"
#include <stdlib.h>
#include <errno.h>
#include <sys/mman.h>
int* __errno_location(void) { static int e; return &e; }
#ifdef FIBER_STACK_MMAP
/* the page size is an environment parameter: a small one keeps the byte-level stack object within the solver's reach (the real 4096 gives a
 * 13M-variable formula); lemma_page_rounding covers the sizing arithmetic for the real page size */
#define VPAGE 256
#ifndef VSZ
#define VSZ 1039
#endif
#define SBUF (6 * (VPAGE - 50) + 64)
#else
#define SBUF (1024 + 15 + 16)
#endif
static unsigned char STACKBUF[SBUF] __attribute__((aligned(16)));
static int mallocs, frees, mmaps, munmaps, mprotects; static void* last_alloc; static size_t last_size; static int free_bad, map_bad, guard_bad;
static long vpage = 4096;
#ifdef FIBER_STACK_MALLOC
/* allocator contract: any alignment (16 is NOT assumed); lemma_frame_arith covers every base address and size */
static void* stub_malloc(size_t n) {
  mallocs++; if (verif_bool()) return 0;
  size_t off = (size_t)verif_pick(16); VASSUME(n + off <= SBUF);
  last_alloc = STACKBUF + off; last_size = n; return last_alloc;
}
static void stub_free(void* p) { if (p != last_alloc || frees) free_bad = 1; frees++; }
#define malloc stub_malloc
#define free stub_free
#endif
#ifdef FIBER_STACK_MMAP
long sysconf(int n) { return vpage; }
void* mmap(void* a, size_t n, int prot, int fl, int fd, long off) {
  mmaps++; if (!(prot == (PROT_READ | PROT_WRITE) && (fl & MAP_PRIVATE) && (fl & MAP_ANONYMOUS) && fd == -1)) map_bad = 1;
  if (verif_bool()) return MAP_FAILED;
  VASSUME(n <= SBUF); last_alloc = STACKBUF; last_size = n; return last_alloc;
}
int munmap(void* p, size_t n) { if (p != last_alloc || n != last_size || munmaps) free_bad = 1; munmaps++; return 0; }
int mprotect(void* p, size_t n, int prot) { mprotects++; if (p != last_alloc || n < 1 || n > (size_t)vpage || prot != PROT_NONE) guard_bad = 1; return verif_bool() ? 0 : -1; }
#endif
#include "src/fiber_context.c" /* woven */
#undef malloc
#undef free
static void spec_snap(void) {}
static void spec_step(int site) {}
static void spec_env(int site) {}
static void spec_read(int site, void* addr) {}
#include "verif_point.inc"
static void* the_fn(void* p) { return p; }
fiber_context_t CTX;
static void init_body(size_t sz, void* param) {
  mallocs = frees = mmaps = munmaps = mprotects = 0; free_bad = map_bad = guard_bad = 0; last_alloc = 0; last_size = 0;
  /* the context memory is the caller's and arrives with ANY content (test_context.c passes uninitialised stack memory) */
  CTX.is_thread = (int)verif_u64(); CTX.ctx_stack = (void*)verif_u64(); CTX.ctx_stack_size = (size_t)verif_u64(); CTX.ctx_stack_pointer = (void**)verif_u64();
  int r = fiber_context_init(&CTX, sz, &the_fn, param);
  if (r == FIBER_SUCCESS) {
    unsigned char* lo = (unsigned char*)CTX.ctx_stack; unsigned char* hi = lo + CTX.ctx_stack_size; void** sp = CTX.ctx_stack_pointer;
    VASSERT(CTX.ctx_stack == last_alloc && CTX.ctx_stack_size == last_size && CTX.ctx_stack_size >= sz, "C19: the context owns exactly the stack it allocated, at least as large as requested");
    VASSERT(((uintptr_t)sp & 0x0f) == 0, "C19: the saved stack pointer is 16-byte aligned");
    VASSERT((unsigned char*)sp >= lo && (unsigned char*)(sp + 9) <= hi, "C19: the initial frame lies inside the private stack");
    VASSERT(sp[0] == 0 && sp[1] == 0 && sp[2] == 0 && sp[3] == 0 && sp[4] == 0 && sp[5] == 0, "C19: callee-saved register slots start as 0");
    VASSERT(sp[6] == (void*)&the_fn && sp[7] == 0 && sp[8] == param, "C19: slot 6 = function (rip), slot 7 = dummy return address, slot 8 = argument");
    VASSERT(CTX.is_thread == 0, "C19: a created context is not a thread context");
#ifdef FIBER_STACK_MMAP
    VASSERT(mmaps == 1 && !map_bad && munmaps == 0, "C19: the mmap stack is one private anonymous read-write mapping");
    VASSERT(mprotects == 1 && !guard_bad && (unsigned char*)sp >= lo + VPAGE, "C19: its lowest page is made a guard page (PROT_NONE) and the initial frame is above it");
#endif
    /* and it is released exactly once, with the call and size it was allocated with */
    fiber_context_destroy(&CTX);
    VASSERT(!free_bad && frees + munmaps == 1, "C19: the stack is released exactly once with the strategy's own call (and size)");
  } else {
    VASSERT(r == FIBER_ERROR && !free_bad, "C19: failure is reported as FIBER_ERROR");
#ifdef FIBER_STACK_MMAP
    VASSERT(munmaps == (last_alloc != 0), "C19: a failed init unmaps the mapping it made exactly once (guard page refused) and nothing otherwise");
#else
    VASSERT(frees == 0 && last_alloc == 0, "C19: a failed init had no stack to release");
#endif
  }
  VCANARY("context_init can return");
}
void h_init(void) {
  void* param = (void*)verif_u64();
#ifdef FIBER_STACK_MMAP
  /* one concrete request per group (-DVSZ: 1024 -> 5 pages of 206 usable bytes, 1039 -> 6 pages): the byte-level stack object of the mmap variant is
   * expensive for the solver (7 GB with a symbolic request); the arithmetic for all sizes is lemma_frame_arith / lemma_page_rounding */
  vpage = VPAGE;
  init_body(VSZ, param);
#else
  size_t sz = (size_t)verif_u64();
  VASSUME(sz >= 1024 && sz <= 1024 + 15);   /* every residue mod 16 at the documented minimum FIBER_MIN_STACK_SIZE (the frame sits at the TOP of the
                                               stack, so larger sizes only move it: lemma_frame_arith covers all sizes and base addresses) */
  init_body(sz, param);
#endif
}
void h_thread_context(void) {
  mallocs = frees = mmaps = munmaps = 0; free_bad = 0;
  CTX.is_thread = (int)verif_u64(); CTX.ctx_stack = (void*)verif_u64(); CTX.ctx_stack_size = (size_t)verif_u64(); CTX.ctx_stack_pointer = (void**)verif_u64();
  int r = fiber_context_init_from_thread(&CTX);
  VASSERT(r == FIBER_SUCCESS && CTX.is_thread == 1 && CTX.ctx_stack == 0, "C19: a thread context has no stack of its own");
  fiber_context_destroy(&CTX);
  VASSERT(frees + munmaps == 0, "C19: destroying a thread context releases nothing");
  VCANARY("thread context can return");
}
/* arithmetic for ALL stack sizes and base addresses (no memory): the frame computed by fiber_context_init fits and is aligned */
void lemma_frame_arith(void) {
  uintptr_t base = verif_u64(), size = verif_u64();
  VASSUME(size >= 1024 && base >= 4096 && base <= UINTPTR_MAX - size);
  uintptr_t p = (base + size) - 8;      /* (void**)((char*)stack + size) - 1 */
  p &= ~(uintptr_t)0x0f; p -= 8;        /* align, filler decrement */
  p -= 9 * 8;                           /* param, dummy return, rip, 6 registers */
  VASSERT((p & 0x0f) == 0, "L: C19 for every base address and size >= 1024 the saved stack pointer is 16-byte aligned");
  VASSERT(p >= base && p + 9 * 8 <= base + size, "L: C19 for every base address and size >= 1024 the frame lies inside the stack");
  VCANARY("lemma reachable");
}
#ifdef FIBER_STACK_MMAP
void lemma_page_rounding(void) {
  size_t n = (size_t)verif_u64(); VASSUME(n <= (1ull << 32)); vpage = 4096;
  size_t r = fiber_round_to_page_size(n);
  VASSERT(r >= n && r >= 2 * 4046, "B: C19 mmap sizing never overflows, covers the request and keeps at least two pages (one is the guard)");
  VCANARY("rounding reachable");
}
#endif
