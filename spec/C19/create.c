/* C19 — who releases a fiber's stack, and how often: fiber_create_no_sched / fiber_create_from_thread (woven /repo/src/fiber.c).
 *   The context layer's contract (proved in context.c): fiber_context_init either succeeds and leaves a live context, or fails having released
 *   whatever it acquired itself (h_init, failure branch); fiber_context_destroy releases a live context's stack exactly once.
 *   Obligation on the creator: a live context is created exactly once per fiber and handed to the caller inside the fiber; after a FAILED init the
 *   context is never destroyed (that would release the stack a second time: munmap of a range somebody else may own by then, double free of the
 *   ucontext), and the control block is freed exactly once.  The matching release on the destroy side (fiber_destroy: one fiber_context_destroy,
 *   then the control block) is C01's maintenance group.
 */
#include "verif_rt.h"
#include <stdlib.h>
#include <errno.h>
#include "fiber.h"
#include "fiber_manager.h"
int* __errno_location(void) { static int e; return &e; }
static struct { int inits, thread_inits, ctx_live, destroys, bad, callocs, live_fb, live_nd, frees_fb, frees_nd; size_t size; void* param; } G;
static fiber_t FB; static mpsc_fifo_node_t ND;
static void* stub_calloc(size_t n, size_t sz) {
  G.callocs++;
  if (verif_bool()) return 0;                      /* allocation may fail */
  if (G.callocs == 1 && n * sz == sizeof(FB)) { G.live_fb = 1; return &FB; }   /* static cells are zeroed, as calloc's are */
  if (G.callocs == 2 && n * sz == sizeof(ND)) { G.live_nd = 1; return &ND; }
  G.bad = 1; return 0;
}
static void stub_free(void* p) {
  if (p == (void*)&FB) { if (!G.live_fb) G.bad = 1; G.live_fb = 0; G.frees_fb++; }
  else if (p == (void*)&ND) { if (!G.live_nd) G.bad = 1; G.live_nd = 0; G.frees_nd++; }
  else if (p) G.bad = 1;
}
#define calloc(n, s) stub_calloc(n, s)
#define free(p) stub_free(p)
#include "src/fiber.c" /* woven */
#undef calloc
#undef free
static void spec_snap(void) {}
static void spec_step(int site) {}
static void spec_env(int site) {}
static void spec_read(int site, void* addr) {}
#include "verif_point.inc"
static void* the_fn(void* p) { return p; }
/* contracts of the context layer */
int fiber_context_init(fiber_context_t* c, size_t stack_size, fiber_run_function_t fn, void* param) {
  if (c != &FB.context || stack_size != G.size || fn != &fiber_go_function || param != (void*)&FB || G.inits || G.ctx_live) G.bad = 1;
  G.inits++;
  if (verif_bool()) { G.ctx_live = 1; return FIBER_SUCCESS; }
  return FIBER_ERROR;                              /* failed: the layer already released what it had acquired */
}
int fiber_context_init_from_thread(fiber_context_t* c) {
  if (c != &FB.context || G.thread_inits || G.ctx_live) G.bad = 1;
  G.thread_inits++;
  if (verif_bool()) { G.ctx_live = 1; return FIBER_SUCCESS; }
  return FIBER_ERROR;
}
void fiber_context_destroy(fiber_context_t* c) {
  if (c != &FB.context || !G.ctx_live) G.bad = 1;   /* no live context there: its stack would be released a second time */
  G.ctx_live = 0; G.destroys++;
}
static void reset(void) {
  G.inits = G.thread_inits = G.ctx_live = G.destroys = G.bad = G.callocs = G.live_fb = G.live_nd = G.frees_fb = G.frees_nd = 0;
}
void h_create(void) {
  reset(); G.size = (size_t)verif_u64(); G.param = (void*)verif_u64();
  fiber_t* r = fiber_create_no_sched(G.size, &the_fn, G.param);
  VASSERT(!G.bad, "C19: the creator initialises one context, for the new fiber, with the requested stack size, and never destroys a context that is not live (a failed init has released its own stack)");
  if (r) {
    VASSERT(r == &FB && G.live_fb && G.live_nd && r->mpsc_fifo_node == &ND && G.inits == 1 && G.ctx_live && G.destroys == 0,
            "C19: a created fiber owns its control block and exactly one live context (its stack is released by fiber_destroy, once)");
    VASSERT(r->run_function == &the_fn && r->param == G.param && r->state == FIBER_STATE_READY && r->detach_state == FIBER_DETACH_NONE && r->join_info == 0 && r->result == 0,
            "C19: a created fiber starts READY, joinable, with the function and argument given");
  } else {
    VASSERT(!G.ctx_live && G.destroys == 0 && !G.live_fb && G.frees_fb <= 1,
            "C19: a failed create leaves no live context and no control block behind, and releases the stack zero further times");
  }
  VCANARY("create can return");
}
void h_create_from_thread(void) {
  reset();
  fiber_t* r = fiber_create_from_thread();
  VASSERT(!G.bad, "C19: the thread fiber's creator never destroys a context that is not live");
  if (r) VASSERT(r == &FB && G.live_fb && G.live_nd && G.thread_inits == 1 && G.inits == 0 && G.ctx_live && G.destroys == 0 && r->state == FIBER_STATE_RUNNING,
                 "C19: a thread fiber owns exactly one live (stack-less) context and starts RUNNING");
  else VASSERT(!G.ctx_live && G.destroys == 0 && !G.live_fb, "C19: a failed thread-fiber create leaves no live context and no control block behind");
  VCANARY("create_from_thread can return");
}
