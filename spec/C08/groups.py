FNS = ['read', 'readv', 'recv', 'recvfrom', 'recvmsg', 'write', 'writev', 'send', 'sendto', 'sendmsg', 'close', 'fcntl', 'ioctl', 'should_block', 'accept', 'connect', 'setup_socket']
WEAVE = [dict(file='src/fiber_io.c', fns=FNS, loops='loops.json')]
def H(name, fn=None):
    return dict(name=name, tu='io.c', harness='h_' + name, mode='H', loop_contracts=True, functions=[fn or name], timeout=300)
GROUPS = [H(n) for n in ['read', 'readv', 'recv', 'recvfrom', 'recvmsg', 'write', 'writev', 'send', 'sendto', 'sendmsg', 'close', 'accept', 'connect']] + [
    H('fcntl_setfl_nonblock', 'fcntl'), H('fcntl_other', 'fcntl'), H('ioctl_fionbio', 'ioctl')]
ASSUMPTIONS = ['the kernel behind the fibershim_* pointers may return anything POSIX allows; a descriptor outside [0, max_fd) fails with EBADF',
               'fiber_wait_for_event / fiber_fd_closed by contract (C01/C09 own the event layer); the blocking mode of the observed descriptor is not changed by another fiber during the call',
               'kernel readiness delivery (epoll) is not modelled: "a blocked fiber is always resumed" is decided only as far as the wait/wake contracts go']
