FNS = ['read', 'readv', 'recv', 'recvfrom', 'recvmsg', 'write', 'writev', 'send', 'sendto', 'sendmsg', 'close', 'fcntl', 'ioctl', 'should_block', 'accept', 'connect', 'setup_socket']
WEAVE = [dict(file='src/fiber_io.c', fns=FNS, loops='loops.json'),
         dict(file='src/fiber_event_native.c', fns=['fiber_wait_for_event', 'fiber_fd_closed', 'fiber_event_wake_waiters', 'fiber_poll_events_internal'])]
def H(name, fn=None):
    return dict(name=name, tu='io.c', harness='h_' + name, mode='H', loop_contracts=True, functions=[fn or name], timeout=300)
GROUPS = [H(n) for n in ['read', 'readv', 'recv', 'recvfrom', 'recvmsg', 'write', 'writev', 'send', 'sendto', 'sendmsg', 'close', 'accept', 'connect']] + [
    dict(name='socket', tu='io.c', harness='h_socket', mode='H', loop_contracts=True, functions=['socket', 'setup_socket'], unwind=9, timeout=300),
    dict(name='socketpair', tu='io.c', harness='h_socketpair', mode='H', loop_contracts=True, functions=['socketpair', 'setup_socket'], unwind=9, timeout=300),
    dict(name='pipe', tu='io.c', harness='h_pipe', mode='H', loop_contracts=True, functions=['pipe'], unwind=9, timeout=300),
    dict(name='io_init', tu='io.c', harness='h_io_init', mode='H', loop_contracts=True, functions=['fiber_io_init'], unwind=9, timeout=300),
    H('fcntl_setfl_nonblock', 'fcntl'), H('fcntl_other', 'fcntl'), H('ioctl_fionbio', 'ioctl'),
    dict(name='ev_wait_for_event', tu='event.c', harness='h_wait_for_event', mode='H', functions=['fiber_wait_for_event'], timeout=300),
    dict(name='ev_poll_fd_event', tu='event.c', harness='h_poll_fd_event', mode='H', functions=['fiber_poll_events_internal', 'fiber_event_wake_waiters'], unwind=4, bounded=True,
         bound='one descriptor event per poll, <= 2 fibers parked on the descriptor'),
    dict(name='ev_fd_closed', tu='event.c', harness='h_fd_closed', mode='H', functions=['fiber_fd_closed', 'fiber_event_wake_waiters'], unwind=4, bounded=True,
         bound='<= 2 fibers parked on the descriptor; all int descriptors')]
ASSUMPTIONS = ['the kernel behind the fibershim_* pointers may return anything POSIX allows; a descriptor outside [0, max_fd) fails with EBADF',
               'fiber_wait_for_event / fiber_fd_closed by contract in the shim proofs; their real bodies are proved against an abstract epoll in event.c (waiter-list walks bounded: <= 2 parked fibers); the blocking mode of the observed descriptor is not changed by another fiber during the call',
               'kernel readiness delivery (epoll) is not modelled: "a blocked fiber is always resumed" is decided only as far as the wait/wake contracts go']
# obligation groups of other properties' specifications that this property also rests on (its anchors name those files); see DESIGN.md 11.2
IMPORTS = [dict(prop='C01', groups=['maintenance', 'maintenance_migrating_unlock'])]
