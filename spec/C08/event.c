/* C08 — the event layer the shims rely on: fiber_wait_for_event, fiber_fd_closed, fiber_event_wake_waiters and the descriptor branch
 * of fiber_poll_events_internal (woven /repo/src/fiber_event_native.c) against an abstract epoll.
 *
 * Invariant (per descriptor, whenever its spinlock is free): info->events = union of the directions the parked waiters wait for, and — when
 *           it is non-zero — the kernel's one-shot interest for the descriptor is exactly EPOLLONESHOT | info->events.
 * Contract  wait_for_event(fd, dir): under info->spinlock add dir to info->events, (re)arm the kernel with the ACCUMULATED set (EPOLL_CTL_ADD
 *           the first time, MOD afterwards), push me on the waiter list, mark me WAITING, hand the lock to spinlock_to_unlock and switch;
 *           return SUCCESS iff I was woken with result 0 (not by close).
 *           poller, descriptor event: under the lock clear the fired directions, re-arm the rest, wake ALL waiters (each once, READY,
 *           result 0).          fd_closed: any int accepted; inside the table: clear interest, wake all waiters with result -1.
 */
#include "verif_rt.h"
#include "fiber.h"
#include "fiber_manager.h"
#include "fiber_event.h"
#include "fiber_spinlock.h"
#include <stdlib.h>
#include <sys/epoll.h>
typedef struct {
  int locks, unlocks; fiber_spinlock_t* held;
  int ctl_calls, ctl_op, ctl_fd; unsigned ctl_mask;
  int yields; int scheduled[3]; int sched_bad;
  int wake_result_closed; int unlocked_access;
} ghost_t;
ghost_t G;
fiber_manager_t VM0;
fiber_t ME, W1, W2;
int* __errno_location(void) { static int e; return &e; }

#include "src/fiber_event_native.c"

static void spec_snap(void) {}
static void spec_step(int site) {}
static void spec_env(int site) {}
#define TBLN 4
static fd_wait_info_t WTABLE[TBLN];
static int FD;
/* every access to the descriptor's record (waiter list, interest, added) happens with its spinlock held: a waiter links itself and is
 * switched out under that lock, so a poller walking the list without it can wake a fiber that is still running (C01) */
static void spec_read(int site, void* addr) {
  if (VERIF_IN_OBJECT(addr, WTABLE, sizeof(WTABLE)) && addr != (void*)&WTABLE[FD].spinlock && G.held != &WTABLE[FD].spinlock) G.unlocked_access = 1;
}
#include "verif_point.inc"
static unsigned EV0; static int ADDED0; static fiber_t* WAITERS0;

fiber_manager_t* fiber_manager_get(void) { return &VM0; }
void fiber_do_real_sleep(uint32_t s, uint32_t us) {}
int fiber_spinlock_lock(fiber_spinlock_t* l) { VASSERT(G.held == 0, "C: no spinlock taken while another is held"); G.held = l; if (G.locks < 3) G.locks++; return FIBER_SUCCESS; }
int fiber_spinlock_unlock(fiber_spinlock_t* l) { VASSERT(G.held == l, "C: unlock what is held"); G.held = 0; if (G.unlocks < 3) G.unlocks++; return FIBER_SUCCESS; }
int epoll_ctl(int epfd, int op, int fd, struct epoll_event* e) {
  VASSERT(G.held == &WTABLE[FD].spinlock, "C08.event: the kernel interest is changed only under the descriptor's spinlock");
  if (G.ctl_calls < 3) G.ctl_calls++;
  G.ctl_op = op; G.ctl_fd = fd; G.ctl_mask = e ? e->events : 0;
  return verif_bool() ? 0 : -1;
}
void fiber_manager_yield(fiber_manager_t* m) {
  if (G.yields < 3) G.yields++;
  VASSERT(m == &VM0 && G.held == &WTABLE[FD].spinlock && VM0.spinlock_to_unlock == &WTABLE[FD].spinlock, "C08.event: the descriptor's spinlock is held until the switch and released only via spinlock_to_unlock");
  VASSERT(WTABLE[FD].waiters == (void*)&ME && ME.scratch == (void*)WAITERS0 && ME.state == FIBER_STATE_WAITING, "C08.event: I am on the waiter list and WAITING before I can be woken");
  G.held = 0;
  /* ... somebody wakes me: result 0 (ready) or -1 (descriptor closed) */
  G.wake_result_closed = verif_bool();
  ME.scratch = G.wake_result_closed ? (void*)-1 : (void*)0; ME.state = FIBER_STATE_RUNNING;
}
void fiber_scheduler_schedule(fiber_scheduler_t* s, fiber_t* f) {
  int k = f == &W1 ? 1 : f == &W2 ? 2 : -1;
  if (k < 0 || G.scheduled[k] || f->state != FIBER_STATE_READY) G.sched_bad = 1; else G.scheduled[k] = 1;
}
static void setup(void) {
  event_fd = 3; timer_fd = 2; max_fd = (int)verif_pick(TBLN) + 1; wait_info = WTABLE;
  G.locks = G.unlocks = G.ctl_calls = G.yields = 0; G.held = 0; G.scheduled[1] = G.scheduled[2] = 0; G.sched_bad = 0; G.unlocked_access = 0;
  VM0.current_fiber = &ME; VM0.spinlock_to_unlock = 0; VM0.scheduler = (fiber_scheduler_t*)&VM0; ME.state = FIBER_STATE_RUNNING;
  FD = (int)verif_pick((unsigned)max_fd);
  EV0 = (verif_bool() ? EPOLLIN : 0) | (verif_bool() ? EPOLLOUT : 0); ADDED0 = verif_bool();
  unsigned nw = verif_pick(3); /* 0, 1 or 2 fibers already parked on the descriptor */
  W1.state = W2.state = FIBER_STATE_WAITING; W1.scratch = nw == 2 ? (void*)&W2 : 0; W2.scratch = 0;
  WAITERS0 = nw == 0 ? 0 : &W1;
  VASSUME((WAITERS0 == 0) == (EV0 == 0)); /* INV: interest = what the parked waiters wait for */
  VASSUME(EV0 == 0 || ADDED0);
  WTABLE[FD].events = (int)EV0; WTABLE[FD].added = ADDED0; WTABLE[FD].waiters = WAITERS0;
}
void h_wait_for_event(void) {
  setup();
  unsigned req = (unsigned)verif_pick(3) + 1; /* FIBER_POLL_IN, _OUT, or both */
  unsigned want = (req & FIBER_POLL_IN ? EPOLLIN : 0) | (req & FIBER_POLL_OUT ? EPOLLOUT : 0);
  int r = fiber_wait_for_event(FD, req);
  VASSERT(G.locks == 1 && G.unlocks == 0 && G.yields == 1 && !G.unlocked_access, "C08.event: lock once, switch once, the lock is released by the successor; the descriptor's record is touched only under the lock");
  VASSERT((unsigned)WTABLE[FD].events == (EV0 | want) && WTABLE[FD].added == 1, "C08.event: my direction is added to the descriptor's interest");
  VASSERT(G.ctl_calls == 1 && G.ctl_fd == FD && G.ctl_op == (ADDED0 ? EPOLL_CTL_MOD : EPOLL_CTL_ADD), "C08.event: the kernel is (re)armed once: ADD the first time, MOD afterwards");
  VASSERT(G.ctl_mask == (EPOLLONESHOT | EV0 | want), "C08.event: the kernel is armed with the ACCUMULATED interest of all waiters on the descriptor (nobody's direction is dropped)");
  VASSERT(r == (G.wake_result_closed ? FIBER_ERROR : FIBER_SUCCESS), "C08.event: success iff woken by readiness, error iff the descriptor was closed");
  VCANARY("wait_for_event can return");
}
/* the poller: one descriptor event */
static unsigned FIRED;
int epoll_wait(int epfd, struct epoll_event* ev, int max, int timeout) { ev[0].data.fd = FD; ev[0].events = FIRED; return 1; }
void h_poll_fd_event(void) {
  setup(); VASSUME(FD != timer_fd);
  FIRED = (verif_bool() ? EPOLLIN : 0) | (verif_bool() ? EPOLLOUT : 0) | (verif_bool() ? EPOLLERR : 0) | (verif_bool() ? EPOLLHUP : 0);
  int n = fiber_poll_events_internal(0, 0);
  unsigned rest = (EV0 & ~FIRED) & (EPOLLIN | EPOLLOUT);
  VASSERT(n == 1 && G.locks == 1 && G.unlocks == 1 && G.held == 0, "C08.event: the descriptor's state is updated under its spinlock");
  VASSERT(!G.unlocked_access, "C08.event: the poller touches the descriptor's waiter list and interest only while holding its spinlock (a waiter on the list may still be running until the lock is released by its successor)");
  VASSERT((unsigned)WTABLE[FD].events == rest, "C08.event: fired directions are cleared, the others kept");
  if (rest) VASSERT(G.ctl_calls == 1 && G.ctl_op == EPOLL_CTL_MOD && G.ctl_fd == FD && G.ctl_mask == (EPOLLONESHOT | rest), "C08.event: the remaining interest is re-armed (one-shot registrations are consumed by the event)");
  else VASSERT(G.ctl_calls == 0, "C08.event: nothing to re-arm");
  VASSERT(!G.sched_bad && WTABLE[FD].waiters == 0 && (WAITERS0 == 0 || (G.scheduled[1] && W1.scratch == 0)) && (WAITERS0 == 0 || W1.state == FIBER_STATE_READY),
          "C08.event: every parked waiter is woken exactly once, READY, with result 0");
  VCANARY("poll can return");
}
void h_fd_closed(void) {
  int fd = verif_int();
  setup(); if (verif_bool()) event_fd = -1;
  if (fd >= 0 && fd < max_fd) VASSUME(fd == FD);
  fiber_fd_closed(fd);   /* memory safety for every int: bounds/pointer checks on wait_info[fd] */
  if (fd >= 0 && fd < max_fd && event_fd >= 0) {
    VASSERT(WTABLE[fd].events == 0 && WTABLE[fd].added == 0 && G.locks == 1 && G.unlocks == 1 && !G.unlocked_access, "C08.close: interest cleared under the descriptor's spinlock");
    VASSERT(!G.sched_bad && WTABLE[fd].waiters == 0 && (WAITERS0 == 0 || (G.scheduled[1] && (intptr_t)W1.scratch == -1)), "C08.close: every waiter is woken once with the closed marker");
    if (EV0 || ADDED0) VASSERT(G.ctl_calls == 1 && G.ctl_op == EPOLL_CTL_DEL, "C08.close: the kernel registration is removed"); 
  } else VASSERT(G.locks == 0 && G.ctl_calls == 0, "C08.invalid: fiber_fd_closed touches nothing for a descriptor outside the table");
  VCANARY("fd_closed can return");
}
ssize_t write(int fd, const void* b, size_t n) { return (ssize_t)n; }
void abort(void) { VASSUME(0); }
