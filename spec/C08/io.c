/* C08 — shimmed descriptor I/O.  Refinement of the real shims in /repo/src/fiber_io.c (woven copy) against an abstract kernel.
 *
 * Oracle  the kernel sits behind the fibershim_* pointers: each call may return anything POSIX allows for it (-1 with any errno,
 *         or a count 0..min(requested, 0x7ffff000); accept: -1 or a descriptor inside the table), and is recorded in ghost.
 * Tables  fd_info[] has max_fd entries (max_fd symbolic, 1..TBL); the descriptor argument ranges over all of int.
 * Contract (from the statement), for every fd, every flag state, every size
 *   safety     every table access is in bounds — also for negative / closed / >= max_fd descriptors
 *   invalid    fd outside [0, max_fd): the call never waits and returns what the kernel returned for it (an error)
 *   pass-thru  arguments are forwarded unchanged; the value returned is the result of the LAST kernel call; no kernel call is
 *              made after one that transferred data (nothing duplicated, nothing lost); a short transfer is returned as is
 *   blocking   descriptor in blocking mode (managed, user has not asked for non-blocking, no MSG_DONTWAIT): the call does not
 *              return -1/EAGAIN|EWOULDBLOCK unless the descriptor was closed while it waited
 *   nonblock   user asked for non-blocking (O_NONBLOCK / FIONBIO / MSG_DONTWAIT) or descriptor unmanaged: never waits
 *   close      detaches and wakes the waiters (fiber_fd_closed, descriptor in range), clears the flags, one kernel close
 */
#include "verif_rt.h"
#include <errno.h>
#include <sys/types.h>
#include <sys/socket.h>
#include <sys/uio.h>
#include <sys/ioctl.h>
#include <fcntl.h>
#include <stdarg.h>
#define TBL 8
typedef struct { /* the call's arguments and entry state: constant during the call (not in any loop's assigns clause) */
  int fd;                 /* the descriptor argument of this call */
  unsigned char flags0;   /* flags of fd at entry (if in range) */
  void* buf; size_t len; int mflags; void* p1; void* p2; long fcntl_val; unsigned long req;
} args_t;
args_t A;
typedef struct {
  long kcalls;            /* kernel calls made by this shim call (saturating at 3) */
  long last_ret; int last_errno;
  int transferred;        /* a kernel call returned >= 0 (data moved / descriptor produced) */
  int call_after_transfer;
  int bad_args;           /* a kernel call did not get the caller's arguments */
  long waits; unsigned wait_events; int closed_while_waiting;
  int fdclosed_calls, kclose_calls;
  int err;                /* errno */
  int newsock; int setsockopt_calls, getsockopt_calls; int so_error;
} ghost_t;
ghost_t G;
int* __errno_location(void) { return &G.err; }
int fiber_wait_for_event(int fd, unsigned events);
void fiber_fd_closed(int fd);

static int KNB[8], KCLOSED[8];   /* per descriptor: the kernel was told O_NONBLOCK / closed it (for the descriptor-creating shims) */
#define BLOCKING_MODE(f) (((f) & (IO_FLAG_BLOCKING | IO_FLAG_WAITABLE)) == (IO_FLAG_BLOCKING | IO_FLAG_WAITABLE))
/* fiber_io_init's allocator: records the request (the table itself is the static TABLE) */
static size_t init_req_n, init_req_sz; static int init_callocs; static void* init_obj;
static void* stub_calloc(size_t n, size_t sz) { init_callocs++; init_req_n = n; init_req_sz = sz; return verif_bool() ? 0 : init_obj; }
#define calloc stub_calloc
#include "src/fiber_io.c" /* woven real code: fd_info, max_fd, thread_locked, fibershim_* are file-local and reachable here */
#undef calloc

static struct fiber_fd_info TABLE[TBL];
static void spec_snap(void) {}
static void spec_step(int site) {}
static void spec_env(int site) {}
static void spec_read(int site, void* addr) {}
#include "verif_point.inc"

static int in_range(int fd) { return fd >= 0 && (rlim_t)fd < max_fd; }
static int is_eagain(int e) { return e == EAGAIN || e == EWOULDBLOCK; }

/* ---- abstract kernel ---- */
static long k_result(size_t maxcount) {
  if (G.transferred) G.call_after_transfer = 1;
  if (G.kcalls < 3) G.kcalls += 1;
  long r = (long)verif_u64();
  int e = verif_int();
  size_t cap = maxcount < 0x7ffff000ul ? maxcount : 0x7ffff000ul;
  VASSUME(r == -1 || (r >= 0 && (size_t)r <= cap));
  VASSUME(e > 0 && e < 4096);
  /* a descriptor that is not open fails with EBADF (this is what makes "invalid descriptor => error return" checkable) */
  if (!in_range(A.fd)) { r = -1; e = EBADF; }
  G.last_ret = r;
  if (r == -1) { G.err = e; G.last_errno = e; } else G.transferred = 1;
  return r;
}
static ssize_t k_read(int fd, void* buf, size_t n) { if (fd != A.fd || buf != A.buf || n != A.len) G.bad_args = 1; return k_result(n); }
static ssize_t k_write(int fd, const void* buf, size_t n) { if (fd != A.fd || buf != A.buf || n != A.len) G.bad_args = 1; return k_result(n); }
static ssize_t k_readv(int fd, const struct iovec* iov, int cnt) { if (fd != A.fd || (void*)iov != A.buf || (size_t)cnt != A.len) G.bad_args = 1; return k_result(0x7ffff000ul); }
static ssize_t k_writev(int fd, const struct iovec* iov, int cnt) { if (fd != A.fd || (void*)iov != A.buf || (size_t)cnt != A.len) G.bad_args = 1; return k_result(0x7ffff000ul); }
static ssize_t k_recv(int fd, void* buf, size_t n, int fl) { if (fd != A.fd || buf != A.buf || n != A.len || fl != A.mflags) G.bad_args = 1; return k_result(n); }
static ssize_t k_send(int fd, const void* buf, size_t n, int fl) { if (fd != A.fd || buf != A.buf || n != A.len || fl != A.mflags) G.bad_args = 1; return k_result(n); }
static ssize_t k_recvfrom(int fd, void* buf, size_t n, int fl, struct sockaddr* a, socklen_t* al) { if (fd != A.fd || buf != A.buf || n != A.len || fl != A.mflags || (void*)a != A.p1 || (void*)al != A.p2) G.bad_args = 1; return k_result(n); }
static ssize_t k_sendto(int fd, const void* buf, size_t n, int fl, const struct sockaddr* a, socklen_t al) { if (fd != A.fd || buf != A.buf || n != A.len || fl != A.mflags || (void*)a != A.p1 || (void*)(size_t)al != A.p2) G.bad_args = 1; return k_result(n); }
static ssize_t k_recvmsg(int fd, struct msghdr* m, int fl) { if (fd != A.fd || (void*)m != A.buf || fl != A.mflags) G.bad_args = 1; return k_result(0x7ffff000ul); }
static ssize_t k_sendmsg(int fd, const struct msghdr* m, int fl) { if (fd != A.fd || (void*)m != A.buf || fl != A.mflags) G.bad_args = 1; return k_result(0x7ffff000ul); }
static int k_close(int fd) { if (fd >= 0 && fd < TBL && KCLOSED[fd] < 3) KCLOSED[fd]++; if (fd != A.fd) G.bad_args = 1; if (G.kclose_calls < 3) G.kclose_calls += 1; return (int)k_result(0); }
static int k_fcntl(int fd, int cmd, ...) {
  if (fd != A.fd) { /* setup of a freshly created / accepted descriptor: not the call under observation; remember what the kernel was told */
    /* (the value is not read here: CBMC's va_arg model is fragile with a second va_list in one function; F_SETFL on a new descriptor is the O_NONBLOCK request) */
    int ok0 = verif_bool();
    if (ok0 && cmd == F_SETFL && fd >= 0 && fd < TBL) KNB[fd] = 1;
    return ok0 ? 0 : -1; }
  va_list ap; va_start(ap, cmd); long v = va_arg(ap, long); va_end(ap);
  if (fd != A.fd || cmd != A.mflags || (cmd == F_SETFL ? v != (A.fcntl_val | O_NONBLOCK) : v != A.fcntl_val)) G.bad_args = 1; return (int)k_result(0x7fffffff); }
static int k_ioctl(int fd, unsigned long req, ...) { va_list ap; va_start(ap, req); void* v = va_arg(ap, void*); va_end(ap);
  if (fd != A.fd || req != A.req || v != A.buf) G.bad_args = 1; return (int)k_result(0x7fffffff); }

static int k_accept(int fd, struct sockaddr* a, socklen_t* al) {
  if (fd != A.fd || (void*)a != A.p1 || (void*)al != A.p2) G.bad_args = 1;
  long r = k_result(0x7fffffff);
  if (r >= 0) { int s = (int)verif_pick((unsigned)max_fd); VASSUME(s != A.fd); /* a new descriptor, not the listening one */ r = s; G.last_ret = s; G.newsock = s; } /* the kernel hands out descriptors inside the table */
  return (int)r;
}
static int k_connect(int fd, const struct sockaddr* a, socklen_t al) {
  if (fd != A.fd || (void*)a != A.p1 || (void*)(size_t)al != A.p2) G.bad_args = 1;
  long r = k_result(0); return (int)r;
}
int setsockopt(int fd, int level, int name, const void* val, socklen_t len) { if (G.setsockopt_calls < 3) G.setsockopt_calls += 1; return verif_bool() ? 0 : -1; }
int getsockopt(int fd, int level, int name, void* val, socklen_t* len) {
  if (G.getsockopt_calls < 3) G.getsockopt_calls += 1;
  if (verif_bool()) return -1;
  G.so_error = verif_int(); VASSUME(G.so_error >= 0 && G.so_error < 4096); *(int*)val = G.so_error; return 0;
}
/* ---- event layer, by contract ---- */
static int PRE_wait(int fd) { return in_range(fd) && fd == A.fd; } /* wait_info[fd] is indexed without a check in there */
int fiber_wait_for_event(int fd, unsigned events) {
  VASSERT(PRE_wait(fd), "C: fiber_wait_for_event only for a descriptor inside the table");
  if (G.waits < 3) G.waits += 1;
  G.wait_events |= events;
  int ok = verif_bool();            /* 0 = the descriptor was closed while we waited */
  if (!ok) G.closed_while_waiting = 1;
  return ok;
}
void fiber_fd_closed(int fd) {
  /* contract of the real fiber_fd_closed (group fd_closed proves it on src/fiber_event_native.c): any int is accepted; only a
     descriptor inside the table has waiters to detach */
  if (in_range(fd) && G.fdclosed_calls < 3) G.fdclosed_calls += 1;
}

static void init_any(void) {
  max_fd = (rlim_t)verif_pick(TBL) + 1;
  fd_info = TABLE;
  thread_locked = 0;
  A.fd = verif_int();
  if (in_range(A.fd)) TABLE[A.fd].flags_ = (unsigned char)(verif_u64() & 3); /* any flag state for the descriptor of this call */
  G.kcalls = G.waits = 0; G.transferred = G.call_after_transfer = G.bad_args = 0; G.wait_events = 0; G.closed_while_waiting = 0;
  G.fdclosed_calls = G.kclose_calls = 0; G.newsock = -1; G.setsockopt_calls = G.getsockopt_calls = 0; G.so_error = 0; G.last_ret = 0; G.last_errno = 0; G.err = 0;
  A.flags0 = in_range(A.fd) ? *(unsigned char*)&TABLE[A.fd].flags_ : 0;
  A.buf = (void*)verif_u64(); A.len = (size_t)verif_u64(); A.mflags = verif_int(); A.p1 = (void*)verif_u64(); A.p2 = (void*)(verif_u64() & 0xFFFFFFFFu);
  A.fcntl_val = (long)verif_u64(); A.req = verif_u64();
  fibershim_read = k_read; fibershim_write = k_write; fibershim_readv = k_readv; fibershim_writev = k_writev; fibershim_recv = k_recv;
  fibershim_send = k_send; fibershim_recvfrom = k_recvfrom; fibershim_sendto = k_sendto; fibershim_recvmsg = k_recvmsg; fibershim_sendmsg = k_sendmsg;
  fibershim_accept = k_accept; fibershim_connect = k_connect; fibershim_close = k_close; fibershim_fcntl = k_fcntl; fibershim_ioctl = k_ioctl;
}
/* the common postcondition of a data-transfer shim; `dontwait` = caller passed MSG_DONTWAIT; want = FIBER_POLL_IN/OUT */
static void check_transfer(long ret, int dontwait, unsigned want, const char* which) {
  int managed_blocking = in_range(A.fd) && BLOCKING_MODE(A.flags0) && !dontwait;
  VASSERT(!G.bad_args, "C08.pass-through: the kernel call gets the caller's arguments unchanged");
  VASSERT(!G.call_after_transfer, "C08.pass-through: no kernel call after one that transferred data (no duplication, no loss)");
  if (!G.closed_while_waiting) VASSERT(G.kcalls >= 1, "C08.pass-through: the kernel call is made");
  if (!G.closed_while_waiting) VASSERT(ret == G.last_ret && (ret != -1 || G.err == G.last_errno), "C08.pass-through: the result is the result of the last kernel call");
  else VASSERT(ret == -1, "C08: a descriptor closed while waiting yields an error");
  if (!in_range(A.fd)) VASSERT(ret == -1 && G.waits == 0, "C08.invalid: an invalid descriptor yields the kernel's error return and never waits");
  if (!managed_blocking) VASSERT(G.waits == 0, "C08.non-blocking: O_NONBLOCK/FIONBIO/MSG_DONTWAIT (or an unmanaged descriptor) never waits");
  if (managed_blocking && !G.closed_while_waiting) VASSERT(!(ret == -1 && is_eagain(G.err)), "C08.blocking: a call on a descriptor in blocking mode never fails with EAGAIN/EWOULDBLOCK");
  if (G.waits > 0) VASSERT(G.wait_events == want, "C08: waits for the direction of the transfer (readable for input, writable for output)");
}
#define H_BEGIN init_any();
void h_read(void) { H_BEGIN long r = read(A.fd, A.buf, A.len); check_transfer(r, 0, FIBER_POLL_IN, "read"); VCANARY("read can return"); }
void h_readv(void) { H_BEGIN VASSUME(A.len <= 0x7fffffff); long r = readv(A.fd, (const struct iovec*)A.buf, (int)A.len); check_transfer(r, 0, FIBER_POLL_IN, "readv"); VCANARY("readv can return"); }
void h_recv(void) { H_BEGIN long r = recv(A.fd, A.buf, A.len, A.mflags); check_transfer(r, A.mflags & MSG_DONTWAIT, FIBER_POLL_IN, "recv"); VCANARY("recv can return"); }
void h_recvfrom(void) { H_BEGIN long r = recvfrom(A.fd, A.buf, A.len, A.mflags, (struct sockaddr*)A.p1, (socklen_t*)A.p2); check_transfer(r, A.mflags & MSG_DONTWAIT, FIBER_POLL_IN, "recvfrom"); VCANARY("recvfrom can return"); }
void h_recvmsg(void) { H_BEGIN long r = recvmsg(A.fd, (struct msghdr*)A.buf, A.mflags); check_transfer(r, A.mflags & MSG_DONTWAIT, FIBER_POLL_IN, "recvmsg"); VCANARY("recvmsg can return"); }
void h_write(void) { H_BEGIN long r = write(A.fd, A.buf, A.len); check_transfer(r, 0, FIBER_POLL_OUT, "write"); VCANARY("write can return"); }
void h_writev(void) { H_BEGIN VASSUME(A.len <= 0x7fffffff); long r = writev(A.fd, (const struct iovec*)A.buf, (int)A.len); check_transfer(r, 0, FIBER_POLL_OUT, "writev"); VCANARY("writev can return"); }
void h_send(void) { H_BEGIN long r = send(A.fd, A.buf, A.len, A.mflags); check_transfer(r, A.mflags & MSG_DONTWAIT, FIBER_POLL_OUT, "send"); VCANARY("send can return"); }
void h_sendto(void) { H_BEGIN long r = sendto(A.fd, A.buf, A.len, A.mflags, (const struct sockaddr*)A.p1, (socklen_t)(size_t)A.p2); check_transfer(r, A.mflags & MSG_DONTWAIT, FIBER_POLL_OUT, "sendto"); VCANARY("sendto can return"); }
void h_sendmsg(void) { H_BEGIN long r = sendmsg(A.fd, (const struct msghdr*)A.buf, A.mflags); check_transfer(r, A.mflags & MSG_DONTWAIT, FIBER_POLL_OUT, "sendmsg"); VCANARY("sendmsg can return"); }
void h_close(void) { H_BEGIN int r = close(A.fd);
  VASSERT(G.kclose_calls == 1 && !G.bad_args && r == (int)G.last_ret, "C08.close: exactly one kernel close of the same descriptor, its result returned");
  if (in_range(A.fd)) VASSERT(G.fdclosed_calls == 1 && *(unsigned char*)&TABLE[A.fd].flags_ == 0, "C08.close: waiters detached and woken once, flags cleared");
  else VASSERT(G.fdclosed_calls == 0 && r == -1, "C08.invalid: close of an invalid descriptor touches no table and yields the kernel's error");
  VCANARY("close can return"); }
void h_fcntl_setfl_nonblock(void) { H_BEGIN int nd = verif_bool(); A.mflags = F_SETFL; A.fcntl_val = nd ? O_NDELAY : O_NONBLOCK; int r = fcntl(A.fd, F_SETFL, A.fcntl_val);
  if (in_range(A.fd)) VASSERT(r == 0 && *(unsigned char*)&TABLE[A.fd].flags_ == (A.flags0 & ~IO_FLAG_BLOCKING), "C08.fcntl: F_SETFL O_NONBLOCK marks the descriptor non-blocking for the shims (and keeps it pollable)");
  else VASSERT(r == -1, "C08.invalid: error return for an invalid descriptor");
  VCANARY("fcntl can return"); }
void h_fcntl_other(void) { H_BEGIN VASSUME(!(A.mflags == F_SETFL && (A.fcntl_val == O_NONBLOCK || A.fcntl_val == O_NDELAY))); int r = fcntl(A.fd, A.mflags, A.fcntl_val);
  VASSERT(G.kcalls == 1 && !G.bad_args && r == (int)G.last_ret, "C08.fcntl: every other request is passed to the kernel (F_SETFL keeps O_NONBLOCK set underneath) and its result returned");
  VCANARY("fcntl(other) can return"); }
static int ONE;
void h_ioctl_fionbio(void) { H_BEGIN ONE = verif_int(); A.req = FIONBIO; A.buf = &ONE; int r = ioctl(A.fd, FIONBIO, &ONE);
  if (in_range(A.fd)) VASSERT(r == 0 && *(unsigned char*)&TABLE[A.fd].flags_ == (ONE ? (A.flags0 & ~IO_FLAG_BLOCKING) : (A.flags0 | IO_FLAG_BLOCKING)), "C08.ioctl: FIONBIO switches the blocking mode seen by the shims");
  else VASSERT(r == -1, "C08.invalid: error return for an invalid descriptor");
  VCANARY("ioctl can return"); }

void h_accept(void) { H_BEGIN int r = accept(A.fd, (struct sockaddr*)A.p1, (socklen_t*)A.p2);
  int managed_blocking = in_range(A.fd) && BLOCKING_MODE(A.flags0);
  VASSERT(G.kcalls >= 1 || G.closed_while_waiting, "C08.pass-through: the kernel call is made");
  if (!in_range(A.fd)) VASSERT(r == -1 && G.waits == 0, "C08.invalid: an invalid descriptor yields the kernel's error return and never waits");
  if (!managed_blocking) VASSERT(G.waits == 0, "C08.non-blocking(accept): a non-blocking listening socket never waits");
  if (managed_blocking && !G.closed_while_waiting) VASSERT(!(r == -1 && is_eagain(G.err) && G.newsock < 0), "C08.blocking(accept): accept on a blocking listening socket never fails with EAGAIN/EWOULDBLOCK");
  if (G.waits > 0) VASSERT(G.wait_events == FIBER_POLL_IN, "C08: accept waits for readability");
  if (r > 0) VASSERT(r == G.newsock && BLOCKING_MODE(*(unsigned char*)&TABLE[r].flags_), "C08(accept): the accepted descriptor is returned and is itself managed in blocking mode");
  VCANARY("accept can return"); }
void h_connect(void) { H_BEGIN int r = connect(A.fd, (const struct sockaddr*)A.p1, (socklen_t)(size_t)A.p2);
  int managed_blocking = in_range(A.fd) && BLOCKING_MODE(A.flags0);
  VASSERT(G.kcalls == 1 && !G.bad_args, "C08.pass-through(connect): exactly one kernel connect with the caller's arguments");
  if (!managed_blocking) VASSERT(G.waits == 0 && r == (int)G.last_ret, "C08.non-blocking(connect): never waits; EINPROGRESS is reported as is");
  if (managed_blocking && G.waits == 0) VASSERT(r == (int)G.last_ret && !(r == -1 && G.last_errno == EINPROGRESS), "C08.blocking(connect): an immediate result is passed through; EINPROGRESS is waited out");
  if (G.waits > 0 && !G.closed_while_waiting && r == 0) VASSERT(G.getsockopt_calls == 1 && G.so_error == 0, "C08.blocking(connect): success only when SO_ERROR reports none");
  if (G.waits > 0) VASSERT(G.wait_events == FIBER_POLL_OUT, "C08: connect waits for writability");
  VCANARY("connect can return"); }
/* ---- descriptor-creating shims: socket, socketpair, pipe.  "A call on a descriptor in blocking mode suspends only the calling fiber" starts here:
 * a new descriptor must be recorded as managed-blocking AND be non-blocking underneath (otherwise the first read blocks the whole kernel thread),
 * or the call fails with the descriptor closed again. ---- */
static int NEW0, NEW1, kcreate_ok;
static void pick_new(void) { NEW0 = (int)verif_pick((unsigned)max_fd); NEW1 = (int)verif_pick((unsigned)max_fd); VASSUME(NEW0 != NEW1);
  TABLE[NEW0].flags_ = 0; TABLE[NEW1].flags_ = 0; /* close() cleared the previous owner's flags: group close */ }
static int k_socket(int d, int t, int p) { kcreate_ok = verif_bool(); if (!kcreate_ok) return -1; return NEW0; }
static int k_socketpair(int d, int t, int p, int sv[2]) { kcreate_ok = verif_bool(); if (!kcreate_ok) return -1; sv[0] = NEW0; sv[1] = NEW1; return 0; }
static int k_pipe(int pv[2]) { kcreate_ok = verif_bool(); if (!kcreate_ok) return -1; pv[0] = NEW0; pv[1] = NEW1; return 0; }
static void init_create(void) {
  init_any(); A.fd = -1; VASSUME(max_fd >= 2);
  for (int i = 0; i < TBL; i++) { KNB[i] = 0; KCLOSED[i] = 0; }
  pick_new(); fibershim_socket = k_socket; fibershim_socketpair = k_socketpair; fibershim_pipe = k_pipe;
}
#define MANAGED(fd) (BLOCKING_MODE(*(unsigned char*)&TABLE[fd].flags_) && KNB[fd])
void h_socket(void) { init_create(); int r = socket(verif_int(), verif_int(), verif_int());
  if (r >= 0) VASSERT(kcreate_ok && r == NEW0 && MANAGED(r) && KCLOSED[r] == 0, "C08(socket): a new socket is managed in blocking mode and non-blocking underneath");
  else VASSERT(r == -1 && (!kcreate_ok || KCLOSED[NEW0] == 1), "C08(socket): a failed socket() returns -1 and leaves no descriptor open");
  VCANARY("socket can return"); }
static int SV[2];
void h_socketpair(void) { init_create(); int r = socketpair(verif_int(), verif_int(), verif_int(), SV);
  if (r == 0) VASSERT(kcreate_ok && SV[0] == NEW0 && SV[1] == NEW1 && MANAGED(NEW0) && MANAGED(NEW1) && KCLOSED[NEW0] == 0 && KCLOSED[NEW1] == 0, "C08(socketpair): both ends are managed in blocking mode and non-blocking underneath");
  else VASSERT(r == -1 && (!kcreate_ok || (KCLOSED[NEW0] == 1 && KCLOSED[NEW1] == 1)), "C08(socketpair): a failed socketpair() returns -1 and leaves no descriptor open");
  VCANARY("socketpair can return"); }
void h_pipe(void) { init_create(); int r = pipe(SV);
  if (r == 0) VASSERT(kcreate_ok && SV[0] == NEW0 && SV[1] == NEW1 && MANAGED(NEW0) && MANAGED(NEW1) && KCLOSED[NEW0] == 0 && KCLOSED[NEW1] == 0, "C08(pipe): both ends are managed in blocking mode and non-blocking underneath");
  else VASSERT(r < 0 && (!kcreate_ok || (KCLOSED[NEW0] == 1 && KCLOSED[NEW1] == 1)), "C08(pipe): a failed pipe() returns an error and leaves no descriptor open");
  VCANARY("pipe can return"); }
/* ---- base case: fiber_io_init sizes the descriptor table by the hard descriptor limit (every descriptor the kernel can hand out is inside it) and
 * starts with every descriptor unmanaged (flags 0: the shims pass such descriptors straight through) ---- */
static rlim_t LIM; static int rlimit_fails;
int getrlimit(__rlimit_resource_t res, struct rlimit* r) { if (res != RLIMIT_NOFILE) return -1; rlimit_fails = verif_bool(); if (rlimit_fails) return -1; r->rlim_cur = (rlim_t)verif_pick((unsigned)LIM + 1); r->rlim_max = LIM; return 0; }
void* dlsym(void* h, const char* name) { return (void*)verif_u64(); }
void h_io_init(void) {
  LIM = (rlim_t)verif_pick(TBL) + 1; fd_info = 0; max_fd = 0; init_callocs = 0; init_obj = TABLE;
  for (int i = 0; i < TBL; i++) TABLE[i].flags_ = 0;   /* calloc zeroes */
  int r = fiber_io_init();
  if (r == FIBER_SUCCESS) VASSERT(fd_info == TABLE && max_fd == LIM && init_callocs == 1 && init_req_n * init_req_sz >= (size_t)LIM * sizeof(*fd_info),
                                  "C08.init: the descriptor table has one zeroed entry for every descriptor below the hard limit, and max_fd is that limit");
  else VASSERT(r == FIBER_ERROR && fd_info == 0, "C08.init: a failed init leaves no table behind");
  int again = fiber_io_init();
  VASSERT(r != FIBER_SUCCESS || (again == FIBER_ERROR && fd_info == TABLE && max_fd == LIM), "C08.init: a second init is refused and keeps the table");
  VCANARY("io_init can return");
}
