/* C16 — refinement of the real lockfree_ring_buffer_trypush / trypop (woven /repo/include/lockfree_ring_buffer.h). */
#include "verif_rt.h"
#include "C16/spec.h"
#include <stdlib.h>
#ifndef PMAX
#define PMAX 4
#endif
typedef struct {
  uint64_t A; int sA; void* vA;                      /* the observed absolute index */
  int role;
  uint64_t lastH, lastL; void* lastcA; void* lastcM; /* snapshot: high, low, slot of A, slot of my index */
  /* what I have read (facts, not an order): pusher l0 <= low, h = high read; popper h0 <= high, l = low read */
  int have_lo, have_hi, have_seen, seen_ok; uint64_t lo, hi; void* seen;
  int claimed, wrote, cas_tried, cas_lost;
  void* in; /* the value I push */
} ghost_t;
ghost_t G;
#define SPEC_ENV_TAKES_ADDR 1

/* create's allocator: records the request; the object handed back is the static store below (only the header is touched by create) */
static size_t create_req; static int create_calls; static void* create_obj;
static void* stub_calloc(size_t n, size_t sz) { create_calls++; create_req = n * sz; return verif_bool() ? 0 : create_obj; }
/* the blocking wrappers call trypush / trypop by contract (the woven wrappers call stub_<callee>) */
static int w_tries, w_done, w_bad; static void* w_val; static void* w_item;
struct lockfree_ring_buffer;
static int stub_lockfree_ring_buffer_trypush(struct lockfree_ring_buffer* rb, void* in);
static void* stub_lockfree_ring_buffer_trypop(struct lockfree_ring_buffer* rb);
#define calloc stub_calloc
#include "lockfree_ring_buffer.h" /* woven real code (found first on the include path) */
#undef calloc
/* the ring: header followed by 2^PMAX cells; `size` is symbolic (2^1 .. 2^PMAX).  A fixed backing store keeps the SAT
   encoding flat (a malloc of symbolic size sends CBMC's array post-processing into a blow-up) */
static struct { lockfree_ring_buffer_t rb; void* cells[1 << PMAX]; } RBS;
#define RB (&RBS.rb)

#define CUR_H (*(uint64_t*)&RB->high)
#define CUR_L (*(uint64_t*)&RB->low)
#define MASK ((uint64_t)RB->power_of_2_mod)
#define SLOT(i) (RB->buffer[(i) & MASK])
/* my index: pusher = the high value I read, popper = the low value I read */
#define MYIDX (G.role == PUSHER ? G.hi : G.lo)
#define HAVE_MY (G.role == PUSHER ? G.have_hi : G.have_lo)

static int inv_A(void) { return RB_INV(CUR_H, CUR_L, (uint64_t)RB->size, G.A, G.sA, G.vA, SLOT(G.A)); }
static rb_me_t me_now(void) { rb_me_t m; m.role = G.role; m.have_lo = G.have_lo; m.have_hi = G.have_hi; m.have_seen = G.have_seen; m.seen_ok = G.seen_ok;
  m.claimed = G.claimed; m.wrote = G.wrote; m.lo = G.lo; m.hi = G.hi; m.seen = G.seen; return m; }
static int know(void) { return rb_know(me_now(), CUR_H, CUR_L, (uint64_t)RB->size, G.A, G.sA, G.vA, HAVE_MY ? SLOT(MYIDX) : 0); }
static void spec_snap(void) { G.lastH = CUR_H; G.lastL = CUR_L; G.lastcA = SLOT(G.A); G.lastcM = HAVE_MY ? SLOT(MYIDX) : 0; }

static void spec_step(int site) {
  uint64_t H = CUR_H, L = CUR_L, size = RB->size;
  if (H != G.lastH) { /* CLAIM_W */
    VASSERT(G.role == PUSHER && !G.claimed && H == G.lastH + 1 && L == G.lastL, "G: high moves only by a pusher's CAS, by one");
    VASSERT(G.have_hi && G.lastH == G.hi, "G: high moves only by my CAS from the value I read");
    VASSERT(G.have_seen && G.seen_ok && G.seen == 0, "G: claim a slot only after seeing it empty (slot read after low and high)");
    VASSERT(G.have_lo && G.lo <= G.hi && G.hi - G.lo < size, "G: claim only with room left (high - low < size for a low value read earlier)");
    G.claimed = 1;
    if (G.A == G.hi) { VASSERT(G.sA == S_FREE, "G: the claimed index was free"); G.sA = S_CW; }
    if (G.A + size == G.hi) VASSERT(G.sA == S_FREE && G.lastcA == 0, "G: previous occupant of the slot popped and cleared");
  } else if (L != G.lastL) { /* CLAIM_R */
    VASSERT(G.role == POPPER && !G.claimed && L == G.lastL + 1, "G: low moves only by a popper's CAS, by one");
    VASSERT(G.have_lo && G.lastL == G.lo, "G: low moves only by my CAS from the value I read");
    VASSERT(G.have_seen && G.seen_ok && G.seen != 0 && G.have_hi && G.hi > G.lo, "G: claim for reading only a non-empty slot below a high value read earlier (slot read after high and low)");
    G.claimed = 1;
    if (G.A == G.lo) { VASSERT(G.sA == S_FULL && G.vA == G.seen, "G: the claimed index holds exactly the value I read"); G.sA = S_CR; }
  }
  /* writes to slots: seen through the observed slot (any slot, since A is arbitrary) and through my own slot */
  if (SLOT(G.A) != G.lastcA) {
    VASSERT(G.claimed && !G.wrote && ((G.A ^ MYIDX) & MASK) == 0, "G: I write only the slot of the index I claimed");
    if (G.role == PUSHER) {
      VASSERT(G.lastcA == 0 && SLOT(G.A) == G.in && G.in != 0, "G: WRITE stores my value into an empty slot (never overwrites an unpopped item)");
      if (G.A == G.hi) { G.sA = S_FULL; G.vA = G.in; } else VASSERT(G.sA == S_FREE, "G: WRITE does not touch another busy index");
    } else {
      VASSERT(SLOT(G.A) == 0, "G: CLEAR stores NULL");
      if (G.A == G.lo) G.sA = S_FREE; else VASSERT(G.sA == S_FREE, "G: CLEAR does not wipe another index's value");
    }
    G.wrote = 1;
  } else if (HAVE_MY && SLOT(MYIDX) != G.lastcM) {
    VASSERT(G.claimed && !G.wrote, "G: I write my slot only after claiming it, once");
    if (G.role == PUSHER) VASSERT(G.lastcM == 0 && SLOT(MYIDX) == G.in && G.in != 0, "G: WRITE stores my value into an empty slot");
    else VASSERT(SLOT(MYIDX) == 0, "G: CLEAR stores NULL");
    G.wrote = 1;
  }
}
static void spec_env_at(int site, void* addr) {
  /* any number of other pushers/poppers ran: new high/low, new ghost of A, new content of the slot of A, of my slot and of
     the cell I am about to access — anything satisfying INV and my knowledge */
  uint64_t H2 = verif_u64(), L2 = verif_u64();
  VASSUME(H2 >= CUR_H && L2 >= CUR_L);
  CUR_H = H2; CUR_L = L2;
  G.sA = verif_int(); G.vA = (void*)verif_u64();
  SLOT(G.A) = (void*)verif_u64();
  if (HAVE_MY) SLOT(MYIDX) = (void*)verif_u64();
  VASSUME(inv_A() && know());
}
static void spec_read(int site, void* addr) {
  /* ownership: the only cell of the buffer an operation touches is the slot of the index it read */
  if (__CPROVER_same_object(addr, &RBS) && (char*)addr >= (char*)&RB->buffer[0] && (char*)addr < (char*)&RB->buffer[RB->size])
    VASSERT(HAVE_MY && addr == (void*)&SLOT(MYIDX), "O: a buffer access goes to the slot of the index I read");
  if (addr == (void*)&RB->low && !G.have_lo) { G.have_lo = 1; G.lo = CUR_L; }
  else if (addr == (void*)&RB->high && !G.have_hi) { G.have_hi = 1; G.hi = CUR_H; }
  else if (addr == (void*)&RB->high && G.role == PUSHER && G.have_hi && !G.claimed) { G.cas_tried = 1; G.cas_lost = (CUR_H != G.hi); }
  else if (addr == (void*)&RB->low && G.role == POPPER && G.have_lo && !G.claimed) { G.cas_tried = 1; G.cas_lost = (CUR_L != G.lo); }
  else if (HAVE_MY && addr == (void*)&SLOT(MYIDX) && !G.have_seen && !G.claimed) { G.have_seen = 1; G.seen = SLOT(MYIDX);
    G.seen_ok = G.have_lo && G.have_hi && (G.role == PUSHER ? CUR_H == G.hi : CUR_L == G.lo); }
}
#include "verif_point.inc"

static int clean(void) { return !G.have_lo && !G.have_hi && !G.have_seen && !G.seen_ok && !G.claimed && !G.wrote && !G.cas_tried && !G.cas_lost; }
static int size_ok(void) { return RB->size >= 2 && (RB->size & (RB->size - 1)) == 0 && RB->power_of_2_mod == RB->size - 1; }
static int PRE_op(int role) { return G.role == role && clean() && size_ok() && inv_A() && G.lastH == CUR_H && G.lastL == CUR_L && G.lastcA == SLOT(G.A); }
/* trypush: success = CLAIM_W then WRITE of my value; failure = no effect, and only because the slot was seen occupied, the
   buffer looked full (high - low >= size for the values read), or the CAS lost to a concurrent push */
static int POST_push(int ret) {
  if (!inv_A() || !size_ok()) return 0;
  if (ret == 1) return G.claimed && G.wrote && (G.A != G.hi || (G.sA == S_FULL && G.vA == G.in));
  return ret == 0 && !G.claimed && !G.wrote &&
         ((G.have_seen && G.seen != 0) || (G.have_lo && G.have_hi && G.hi - G.lo >= RB->size) || (G.cas_tried && G.cas_lost));
}
/* trypop: success = CLAIM_R of index l, returns the value pushed for l, then CLEAR; failure = no effect, only because the
   slot was seen empty, the buffer looked empty (high <= low for the values read), or the CAS lost to a concurrent pop */
static int POST_pop(void* ret) {
  if (!inv_A() || !size_ok()) return 0;
  if (ret != 0) return G.claimed && G.wrote && ret == G.seen && (G.A != G.lo || G.sA == S_FREE);
  return !G.claimed && !G.wrote &&
         ((G.have_seen && G.seen == 0) || (G.have_lo && G.have_hi && G.hi <= G.lo) || (G.cas_tried && G.cas_lost));
}
#if defined(VERIF_MODE_D)
static inline int lockfree_ring_buffer_trypush(lockfree_ring_buffer_t* rb, void* in)
  __CPROVER_requires(rb == &RBS.rb && in == G.in && in != 0 && PRE_op(PUSHER)) __CPROVER_ensures(POST_push(__CPROVER_return_value))
  __CPROVER_assigns(G, RBS);
static inline void* lockfree_ring_buffer_trypop(lockfree_ring_buffer_t* rb)
  __CPROVER_requires(rb == &RBS.rb && PRE_op(POPPER)) __CPROVER_ensures(POST_pop(__CPROVER_return_value))
  __CPROVER_assigns(G, RBS);
#endif
static void init_any(int role) {
  unsigned p = (unsigned)verif_pick(PMAX) + 1; /* capacity 2^1 .. 2^PMAX */
  uint32_t size = 1u << p;
  /* cells other than the slot of A and the slot I access are never read by the code (ownership obligation O:) */
  RB->size = size; RB->power_of_2_mod = size - 1;
  CUR_H = verif_u64(); CUR_L = verif_u64();
  G.A = verif_u64(); G.sA = verif_int(); G.vA = (void*)verif_u64();
  SLOT(G.A) = (void*)verif_u64();
  G.role = role; G.have_lo = G.have_hi = G.have_seen = G.seen_ok = G.claimed = G.wrote = G.cas_tried = G.cas_lost = 0; G.lo = G.hi = 0; G.seen = 0;
  G.in = (void*)verif_u64();
  spec_snap();
}
void h_trypush(void) { init_any(PUSHER); VASSUME(G.in != 0 && PRE_op(PUSHER)); int r = lockfree_ring_buffer_trypush(RB, G.in);
  VASSERT(POST_push(r), "H: trypush claims then writes its value, or fails without effect for a stated reason"); VCANARY("trypush can return"); }
void h_trypop(void) { init_any(POPPER); VASSUME(PRE_op(POPPER)); void* r = lockfree_ring_buffer_trypop(RB);
  VASSERT(POST_pop(r), "H: trypop claims, returns the value pushed for that index, clears; or fails without effect for a stated reason"); VCANARY("trypop can return"); }
/* create: for every capacity the interface admits (2^1 .. 2^31) the allocation really holds that many slots - the proofs above take
 * "buffer has `size` cells" as given, this is where it is established */
void h_create(void) {
  uint32_t k = (uint32_t)verif_u64(); VASSUME(k >= 1 && k < 32);
  create_calls = 0; create_req = 0; create_obj = &RBS;
  lockfree_ring_buffer_t* r = lockfree_ring_buffer_create(k);
  VASSERT(create_calls == 1 && create_req >= sizeof(lockfree_ring_buffer_t) + ((size_t)1 << k) * sizeof(void*),
          "H: C16 create: the allocation holds the header and all 2^k slots, for every k the interface admits (1..31) - otherwise pushes overwrite foreign memory");
  if (r) VASSERT(r == RB && r->size == ((uint32_t)1 << k) && r->power_of_2_mod == r->size - 1 && CUR_H == 0 && CUR_L == 0,
                 "H: C16 create: capacity 2^k, mask 2^k - 1, empty (high == low == 0, calloc'ed slots are NULL)");
  VCANARY("create can return");
}
/* ---- the blocking wrappers: retry until the first successful trypush / trypop, never again afterwards, pass the caller's value / return the popped one ---- */
static int stub_lockfree_ring_buffer_trypush(struct lockfree_ring_buffer* rb, void* in) {
  if ((void*)rb != (void*)RB || in != w_val || w_done) w_bad = 1;
  w_tries++; int ok = verif_bool(); VASSUME(ok || w_tries < 4); if (ok) w_done = 1; return ok;
}
static void* stub_lockfree_ring_buffer_trypop(struct lockfree_ring_buffer* rb) {
  if ((void*)rb != (void*)RB || w_done) w_bad = 1;
  w_tries++; int ok = verif_bool(); VASSUME(ok || w_tries < 4); if (ok) { w_done = 1; return w_item; } return 0;
}
static void init_wrapper(void) {
  w_tries = w_done = w_bad = 0; w_val = (void*)verif_u64(); w_item = (void*)verif_u64(); VASSUME(w_val != 0 && w_item != 0);
  RB->size = 2; RB->power_of_2_mod = 1; CUR_H = verif_u64(); CUR_L = verif_u64(); G.role = PUSHER; G.A = 0; spec_snap();
}
void h_push_wrapper(void) { init_wrapper();
  lockfree_ring_buffer_push(RB, w_val);
  VASSERT(!w_bad && w_done && w_tries >= 1, "H: C16 push = trypush of the caller's value repeated until the first success, no attempt after it (its own accesses are reads: step monitor)");
  VCANARY("push wrapper can return"); }
void h_pop_wrapper(void) { init_wrapper();
  void* r = lockfree_ring_buffer_pop(RB);
  VASSERT(!w_bad && w_done && r == w_item, "H: C16 pop = trypop repeated until the first success, whose value is returned; no attempt after it (its own accesses are reads: step monitor)");
  VCANARY("pop wrapper can return"); }
