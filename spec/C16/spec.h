/* C16 — lock-free ring buffer: invariant over one observed absolute index A (symbolic observer), shared by ring.c and lemmas.c.
 *
 * Shared  H = high (next index to claim for writing), L = low (next index to claim for reading), size = 2^p, buffer[]
 * Ghost   for the observed absolute index A:  sA ∈ {FREE, CW (claimed by a pusher, not written), FULL, CR (claimed by a
 *         popper, not cleared)},  vA the value pushed for A;   cA = current content of the physical slot buffer[A & mask]
 * INV     R3  L <= H <= L + size
 *         R2  A < L ⇒ sA ∈ {CR, FREE};  L <= A < H ⇒ sA ∈ {CW, FULL};  A >= H ⇒ sA = FREE
 *         R1  sA != FREE ⇒ A + size >= H           (all busy indices lie in one window of `size` consecutive values)
 *         SL  sA ∈ {FULL, CR} ⇒ cA = vA != NULL;  sA = CW ⇒ cA = NULL;  sA = FREE ∧ H - size <= A < H ⇒ cA = NULL
 * Actions CLAIM_W (CAS high h -> h+1; guard: slot of h seen NULL while high = h, and h - l0 < size for a value l0 <= low)
 *         WRITE (slot of h := in)   CLAIM_R (CAS low l -> l+1; guard: slot of l seen non-NULL while low = l, and l < h0 <= high)
 *         CLEAR (slot of l := NULL)
 */
#ifndef C16_SPEC_H
#define C16_SPEC_H
#include "verif_rt.h"
#define S_FREE 0
#define S_CW 1
#define S_FULL 2
#define S_CR 3
#define IDX_MAX 0x3FFFFFFFFFFFFFFFull /* A6: the 64-bit indices do not wrap */
#define RB_INV(H, L, size, A, sA, vA, cA)                                                                   \
  ((L) <= (H) && (H) - (L) <= (size) && (H) < IDX_MAX && (sA) >= S_FREE && (sA) <= S_CR &&                    \
   (!((A) < (L)) || (sA) == S_CR || (sA) == S_FREE) && (!((A) >= (L) && (A) < (H)) || (sA) == S_CW || (sA) == S_FULL) && \
   (!((A) >= (H)) || (sA) == S_FREE) && ((sA) == S_FREE || (A) + (size) >= (H)) &&                             \
   (!((sA) == S_FULL || (sA) == S_CR) || ((cA) == (vA) && (vA) != 0)) && ((sA) != S_CW || (cA) == 0) &&        \
   (!((sA) == S_FREE && (A) < (H) && (A) + (size) >= (H)) || (cA) == 0))

#define PUSHER 0
#define POPPER 1
/* seen_ok: when I read my slot I already knew low and high, and the counter my CAS will move still had the value I read
   (pusher: high = hi, popper: low = lo).  Only then is the slot content a fact about MY index (order of the reads matters
   exactly through this flag; any other permutation of the reads is harmless). */
typedef struct { int role, have_lo, have_hi, have_seen, seen_ok, claimed, wrote; uint64_t lo, hi; void* seen; } rb_me_t;
/* knowledge clauses: facts about what an operation has read that no other operation can invalidate (lemmas.c: established
   by the reads, stable under every action of another operation).  cMy = content of the slot of my index. */
static int rb_know(rb_me_t m, uint64_t H, uint64_t L, uint64_t size, uint64_t A, int sA, void* vA, void* cMy) {
  if (m.have_lo && !(m.lo <= L)) return 0;
  if (m.have_hi && !(m.hi <= H)) return 0;
  if (m.role == PUSHER) {
    if (!m.claimed && m.have_hi && m.have_lo && m.have_seen && m.seen_ok && m.seen == 0 && m.hi - m.lo < size && m.lo <= m.hi && H == m.hi) {
      /* I saw the slot of h empty with room left: while high is still h the previous occupant h - size is popped and cleared */
      if (cMy != 0) return 0;
      if (A + size == m.hi && sA != S_FREE) return 0;
    }
    if (m.claimed && !m.wrote) { /* my claimed, unwritten index */
      if (!(H > m.hi) || cMy != 0) return 0;
      if (A == m.hi && sA != S_CW) return 0;
      if (A + size == m.hi && sA != S_FREE) return 0;
      if (!(L <= m.hi)) return 0; /* an unwritten index cannot be popped */
    }
  } else {
    if (!m.claimed && m.have_hi && m.have_lo && m.have_seen && m.seen_ok && m.seen != 0 && m.hi > m.lo && L == m.lo) {
      /* I saw a value in the slot of l with l < h0: while low is still l that value is the one pushed for index l */
      if (cMy != m.seen) return 0;
      if (A == m.lo && !(sA == S_FULL && vA == m.seen)) return 0;
    }
    if (m.claimed && !m.wrote) { /* my claimed, uncleared index */
      if (!(L > m.lo) || cMy != m.seen) return 0;
      if (A == m.lo && !(sA == S_CR && vA == m.seen)) return 0;
      if (!(H <= m.lo + size)) return 0; /* the slot cannot be claimed again before I clear it */
    }
  }
  return 1;
}
#endif
