/* C16 — lock-free ring buffer: invariant over one observed absolute index A (symbolic observer), shared by ring.c and lemmas.c.
 *
 * Shared  H = high (next index to claim for writing), L = low (next index to claim for reading), size = 2^p, buffer[]
 * Ghost   for the observed absolute index A:  sA ∈ {FREE, CW (claimed by a pusher, not written), FULL, CR (claimed by a
 *         popper, not cleared)},  vA the value pushed for A;   cA = current content of the physical slot buffer[A & mask]
 * INV     R3  L <= H <= L + size
 *         R2  A < L ⇒ sA ∈ {CR, FREE};  L <= A < H ⇒ sA ∈ {CW, FULL};  A >= H ⇒ sA = FREE
 *         R1  sA != FREE ⇒ A + size >= H           (all busy indices lie in one window of `size` consecutive values)
 *         SL  sA ∈ {FULL, CR} ⇒ cA = vA != NULL;  sA = CW ⇒ cA = NULL;  sA = FREE ∧ H - size <= A < H ⇒ cA = NULL
 * Actions CLAIM_W (CAS high h -> h+1; guard: slot of h seen NULL while high = h, and h - l0 < size for a value l0 <= low)
 *         WRITE (slot of h := in)   CLAIM_R (CAS low l -> l+1; guard: slot of l seen non-NULL while low = l, and l < h0 <= high)
 *         CLEAR (slot of l := NULL)
 */
#ifndef C16_SPEC_H
#define C16_SPEC_H
#include "verif_rt.h"
#define S_FREE 0
#define S_CW 1
#define S_FULL 2
#define S_CR 3
#define IDX_MAX 0x3FFFFFFFFFFFFFFFull /* A6: the 64-bit indices do not wrap */
#define RB_INV(H, L, size, A, sA, vA, cA)                                                                   \
  ((L) <= (H) && (H) - (L) <= (size) && (H) < IDX_MAX && (sA) >= S_FREE && (sA) <= S_CR &&                    \
   (!((A) < (L)) || (sA) == S_CR || (sA) == S_FREE) && (!((A) >= (L) && (A) < (H)) || (sA) == S_CW || (sA) == S_FULL) && \
   (!((A) >= (H)) || (sA) == S_FREE) && ((sA) == S_FREE || (A) + (size) >= (H)) &&                             \
   (!((sA) == S_FULL || (sA) == S_CR) || ((cA) == (vA) && (vA) != 0)) && ((sA) != S_CW || (cA) == 0) &&        \
   (!((sA) == S_FREE && (A) < (H) && (A) + (size) >= (H)) || (cA) == 0))
#endif
