WEAVE = [dict(file='include/lockfree_ring_buffer.h', parse='test/test_lockfree_ring_buffer.c', fns=['lockfree_ring_buffer_trypush', 'lockfree_ring_buffer_trypop', 'lockfree_ring_buffer_push', 'lockfree_ring_buffer_pop'],
              stub_calls={'lockfree_ring_buffer_push': ['lockfree_ring_buffer_trypush'], 'lockfree_ring_buffer_pop': ['lockfree_ring_buffer_trypop']})]
def G(name, harness, fn, p, thorough):
    return dict(name='%s_cap2to%d' % (name, 1 << p), tu='ring.c', harness=harness, mode='H', functions=[fn], defs=['-DPMAX=%d' % p],
                timeout=900, thorough_only=thorough, bounded=True, bound_note='capacity 2^1..2^%d (symbolic within that range); all 2^62 index values, wrap of index & mask included' % p)
GROUPS = [
    G('trypush', 'h_trypush', 'lockfree_ring_buffer_trypush', 4, False),
    G('trypop', 'h_trypop', 'lockfree_ring_buffer_trypop', 4, False),
    G('trypush', 'h_trypush', 'lockfree_ring_buffer_trypush', 6, True),
    G('trypop', 'h_trypop', 'lockfree_ring_buffer_trypop', 6, True),
    dict(name='push_wrapper', tu='ring.c', harness='h_push_wrapper', mode='H', functions=['lockfree_ring_buffer_push'], unwind=5, bounded=True, bound='the attempt that succeeds is one of the first four'),
    dict(name='pop_wrapper', tu='ring.c', harness='h_pop_wrapper', mode='H', functions=['lockfree_ring_buffer_pop'], unwind=5, bounded=True, bound='the attempt that succeeds is one of the first four'),
    dict(name='create', tu='ring.c', harness='h_create', mode='H', functions=['lockfree_ring_buffer_create'], unwind=2, exact_unwind=True),
    dict(name='lemmas', tu='lemmas.c', kind='lemmas', harness='', no_native='pure lemma', timeout=600),
]
ASSUMPTIONS = ['A6 the 64-bit indices do not wrap (high < 2^62)', 'values pushed are non-NULL (documented precondition of trypush)',
               'capacity: the refinement proofs run with a symbolic capacity 2^1..2^4 (quick) / 2^1..2^6 (thorough) over a fixed backing store - larger capacities only change `size` and the mask, but are not covered by the proof (CBMC array post-processing blows up on a symbolic-size object)',
               'the blocking wrappers lockfree_ring_buffer_push/pop: proved to be retry loops around trypush/trypop (by contract) that add no shared writes of their own and stop at the first success (bounded: success within four attempts); their termination is not proved']
# the property's second anchor (src/fiber_manager.c) is the mpmc node pool built on this ring buffer: its group lives with the woven fiber_manager.c in C01
IMPORTS = [dict(prop='C01', groups=['node_pool'])]
