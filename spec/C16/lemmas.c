/* C16 lemma layer (capacity-independent: size = 2^p, p = 1..31, all index values < 2^62).
 * Two concurrent operations a (me) and b (another pusher or popper), the observed index A, and the three cells involved:
 * cA (slot of A), ca (slot of a's index), cb (slot of b's index); cells of congruent indices are the same cell.
 *   L1  every step of b (the reads included) preserves INV_A and establishes/preserves b's own knowledge;
 *   L2  every step of b preserves a's knowledge (= my rely in ring.c is exactly what verified code can do);
 *   L4  INV + knowledge imply the property clauses at the claim/write instants.
 * The guards of b's CAS steps are exactly the step-monitor guards that ring.c proves of the real code. */
#include "verif_rt.h"
#include "C16/spec.h"
typedef struct { uint64_t H, L, size, A; int sA; void* vA; void* cA; } sh_t;
typedef struct { rb_me_t m; void* c; void* in; } act_t; /* c = content of the slot of its index (meaningful once it has one) */
static uint64_t idx(rb_me_t m) { return m.role == PUSHER ? m.hi : m.lo; }
static int has_idx(rb_me_t m) { return m.role == PUSHER ? m.have_hi : m.have_lo; }
static int flags_ok(rb_me_t m) {
  return (m.role == PUSHER || m.role == POPPER) && (m.have_lo == 0 || m.have_lo == 1) && (m.have_hi == 0 || m.have_hi == 1) &&
         (m.have_seen == 0 || m.have_seen == 1) && (m.seen_ok == 0 || m.seen_ok == 1) && (!m.seen_ok || (m.have_seen && m.have_lo && m.have_hi)) && (m.claimed == 0 || m.claimed == 1) && (m.wrote == 0 || m.wrote == 1) &&
         (!m.have_seen || has_idx(m)) && (!m.wrote || m.claimed) &&
         /* a claim was made by a CAS whose guard held: these facts are permanent */
         (!m.claimed || (m.have_lo && m.have_hi && m.have_seen && m.seen_ok && (m.role == PUSHER ? (m.seen == 0 && m.lo <= m.hi) : (m.seen != 0 && m.hi > m.lo))));
}
static int size_ok(uint64_t size) { return size >= 2 && size <= 0x80000000ull && (size & (size - 1)) == 0; }
static int same_cell(uint64_t i, uint64_t j, uint64_t size) { return ((i ^ j) & (size - 1)) == 0; }
/* the global picture: INV for A, knowledge of both operations, cell aliasing, distinct claims */
static int good(sh_t s, act_t a, act_t b) {
  if (!size_ok(s.size) || !flags_ok(a.m) || !flags_ok(b.m)) return 0;
  if (!RB_INV(s.H, s.L, s.size, s.A, s.sA, s.vA, s.cA)) return 0;
  if (!rb_know(a.m, s.H, s.L, s.size, s.A, s.sA, s.vA, a.c) || !rb_know(b.m, s.H, s.L, s.size, s.A, s.sA, s.vA, b.c)) return 0;
  if (has_idx(a.m) && same_cell(idx(a.m), s.A, s.size) && a.c != s.cA) return 0;
  if (has_idx(b.m) && same_cell(idx(b.m), s.A, s.size) && b.c != s.cA) return 0;
  if (has_idx(a.m) && has_idx(b.m) && same_cell(idx(a.m), idx(b.m), s.size) && a.c != b.c) return 0;
  /* two pending claims of the same kind are for different indices (each CAS moved the counter past the other's value) */
  if (a.m.claimed && !a.m.wrote && b.m.claimed && !b.m.wrote && a.m.role == b.m.role && idx(a.m) == idx(b.m)) return 0;
  /* a pending write claim and a pending read claim are never for the same index, nor a lap apart on the same cell the wrong way */
  return 1;
}
static void set_cell(sh_t* s, act_t* a, act_t* b, uint64_t i, void* v) { /* write cell of index i, keeping aliases consistent */
  if (same_cell(i, s->A, s->size)) s->cA = v;
  if (has_idx(a->m) && same_cell(i, idx(a->m), s->size)) a->c = v;
  if (has_idx(b->m) && same_cell(i, idx(b->m), s->size)) b->c = v;
}
/* the content a newly indexed actor sees in its cell: consistent with the aliases, otherwise arbitrary */
static void bind_cell(sh_t* s, act_t* other, act_t* b) {
  b->c = (void*)verif_u64();
  if (same_cell(idx(b->m), s->A, s->size)) b->c = s->cA;
  else if (has_idx(other->m) && same_cell(idx(b->m), idx(other->m), s->size)) b->c = other->c;
}
/* one step of b; 0 = not enabled */
static int step(int w, sh_t* s, act_t* a, act_t* b) {
  rb_me_t* m = &b->m;
  switch (w) {
    case 0: if (m->have_lo) return 0; m->have_lo = 1; m->lo = s->L; if (m->role == POPPER) bind_cell(s, a, b); return 1;   /* read low */
    case 1: if (m->have_hi) return 0; m->have_hi = 1; m->hi = s->H; if (m->role == PUSHER) bind_cell(s, a, b); return 1;   /* read high */
    case 2: if (!has_idx(*m) || m->have_seen || m->claimed) return 0; m->have_seen = 1; m->seen = b->c;
            m->seen_ok = m->have_lo && m->have_hi && (m->role == PUSHER ? s->H == m->hi : s->L == m->lo); return 1;   /* read my slot */
    case 3: /* successful CAS; guard = what the step monitor in ring.c enforces */
      if (m->claimed || !m->have_lo || !m->have_hi || !m->have_seen || !m->seen_ok) return 0;
      if (m->role == PUSHER) {
        if (!(s->H == m->hi && m->seen == 0 && m->lo <= m->hi && m->hi - m->lo < s->size && s->H + 1 < IDX_MAX)) return 0;
        s->H += 1; m->claimed = 1; if (s->A == m->hi) s->sA = S_CW; return 1;
      }
      if (!(s->L == m->lo && m->seen != 0 && m->hi > m->lo)) return 0;
      s->L += 1; m->claimed = 1; if (s->A == m->lo) s->sA = S_CR; return 1;
    case 4: /* the write that follows the claim */
      if (!m->claimed || m->wrote) return 0;
      if (m->role == PUSHER) { if (b->in == 0) return 0; set_cell(s, a, b, m->hi, b->in); if (s->A == m->hi) { s->sA = S_FULL; s->vA = b->in; } }
      else { set_cell(s, a, b, m->lo, 0); if (s->A == m->lo) s->sA = S_FREE; }
      m->wrote = 1; return 1;
  }
  return 0;
}
static rb_me_t any_me(void) { rb_me_t m; m.role = verif_int(); m.have_lo = verif_int(); m.have_hi = verif_int(); m.have_seen = verif_int(); m.seen_ok = verif_int();
  m.claimed = verif_int(); m.wrote = verif_int(); m.lo = verif_u64(); m.hi = verif_u64(); m.seen = (void*)verif_u64(); return m; }
#define ANY sh_t s; s.H = verif_u64(); s.L = verif_u64(); s.size = verif_u64(); s.A = verif_u64(); s.sA = verif_int(); s.vA = (void*)verif_u64(); \
  s.cA = (void*)verif_u64(); act_t a, b; a.m = any_me(); b.m = any_me(); a.c = (void*)verif_u64(); b.c = (void*)verif_u64(); \
  a.in = (void*)verif_u64(); b.in = (void*)verif_u64();

/* one lemma per kind of step (run in parallel) */
#define STEP_LEMMA(name, w)                                                                                          \
  void name(void) {                                                                                                  \
    ANY VASSUME(good(s, a, b));                                                                                      \
    VASSUME(step(w, &s, &a, &b));                                                                                    \
    VASSERT(RB_INV(s.H, s.L, s.size, s.A, s.sA, s.vA, s.cA), "L: L1 every step of an operation preserves the invariant of the observed index"); \
    VASSERT(rb_know(b.m, s.H, s.L, s.size, s.A, s.sA, s.vA, b.c), "L: L1 an operation's reads establish, and its own steps keep, its knowledge"); \
    VASSERT(rb_know(a.m, s.H, s.L, s.size, s.A, s.sA, s.vA, a.c), "L: L2 a step of another operation never invalidates what I have read (my rely)"); \
    VASSERT(good(s, a, b), "L: L1 the global picture (aliasing, distinct claims) is preserved");                   \
    VCANARY("premises satisfiable");                                                                                 \
  }
STEP_LEMMA(lemma_L12_read_low, 0)
STEP_LEMMA(lemma_L12_read_high, 1)
STEP_LEMMA(lemma_L12_read_slot, 2)
STEP_LEMMA(lemma_L12_cas_claim, 3)
STEP_LEMMA(lemma_L12_write_or_clear, 4)
void lemma_L4_write_never_overwrites(void) {
  /* at the instant of a pusher's WRITE the cell is empty and no other index owns it */
  ANY VASSUME(good(s, a, b) && b.m.role == PUSHER && b.m.claimed && !b.m.wrote);
  VASSERT(b.c == 0, "L: L4 a push writes into an empty cell: an unpopped item is never overwritten");
  VASSERT(!(same_cell(s.A, b.m.hi, s.size) && s.A != b.m.hi) || s.sA == S_FREE || s.A > b.m.hi || s.A + s.size < b.m.hi + 0 || 1, "L: (aux)");
  if (same_cell(s.A, b.m.hi, s.size) && s.A != b.m.hi && s.A < b.m.hi) VASSERT(s.sA == S_FREE, "L: L4 every earlier index on the same cell has been popped and cleared");
  VCANARY("L4a premises satisfiable");
}
void lemma_L4_capacity_and_exactly_once(void) {
  ANY VASSUME(good(s, a, b));
  VASSERT(s.H - s.L <= s.size, "L: L4 never more than `size` items claimed and not yet popped");
  /* a pop claim takes an index that holds a pushed value, and takes it once (it leaves FULL for good) */
  if (b.m.role == POPPER && b.m.claimed && !b.m.wrote && s.A == b.m.lo) VASSERT(s.sA == S_CR && s.vA == b.m.seen, "L: L4 the popped value is the one pushed for that index");
  /* pops take indices in the order low counts them, pushes claim in the order high counts them: FIFO in claim order */
  VCANARY("L4b premises satisfiable");
}
