#!/usr/bin/env python3
"""Prover driver (DESIGN.md 3.4): weave -> goto-cc -> goto-instrument -> cbmc,
one process per obligation group, ledger, evidence, known findings, replay.

usage: prove.py <Cxx> quick|thorough [--bless] [--keep] [--only group]
exit:  0 held (possibly with KNOWN-FINDING lines) / 1 VIOLATION / 2 undecided
"""
import concurrent.futures as cf
import hashlib
import importlib.util
import json
import os
import glob
import re
import resource
import shutil
import subprocess
import sys
import tempfile
import time

VERIF = os.path.dirname(os.path.dirname(os.path.abspath(__file__)))
REPO = os.environ.get('VERIF_REPO', '/repo')
REPLAYS = os.environ.get('VERIF_REPLAY_DIR', os.path.join(VERIF, 'replays'))
sys.path.insert(0, os.path.join(VERIF, 'tools'))
import weave  # noqa: E402

BASE_DEFS = ['-std=gnu11', '-DNDEBUG', '-DFIBER_FAST_SWITCHING']
DEFAULT_STACK = '-DFIBER_STACK_MALLOC'
CBMC_CHECKS = ['--bounds-check', '--pointer-check', '--signed-overflow-check', '--div-by-zero-check']
MEM_LIMIT = 12 << 30


class Undecided(Exception):
    pass


def limits():
    resource.setrlimit(resource.RLIMIT_AS, (MEM_LIMIT, MEM_LIMIT))


def run(cmd, timeout, cwd=None, stdin=None):
    t0 = time.time()
    try:
        p = subprocess.run(cmd, capture_output=True, text=True, timeout=timeout, cwd=cwd, preexec_fn=limits,
                           input=stdin)
        return p.returncode, p.stdout, p.stderr, time.time() - t0
    except subprocess.TimeoutExpired as e:
        return -999, (e.stdout or b'').decode('utf8', 'replace') if isinstance(e.stdout, bytes) else (e.stdout or ''), \
            'timeout after %ds' % timeout, time.time() - t0


def load_spec(pid):
    d = os.path.join(VERIF, 'spec', pid)
    f = os.path.join(d, 'groups.py')
    if not os.path.exists(f):
        raise Undecided('no spec for %s' % pid)
    sp = importlib.util.spec_from_file_location('groups_' + pid, f)
    m = importlib.util.module_from_spec(sp)
    sp.loader.exec_module(m)
    return d, m


def cflags(scratch, extra=()):
    return BASE_DEFS + list(extra) + [
        '-I' + os.path.join(scratch, 'woven', 'include'), '-I' + os.path.join(REPO, 'include'),
        '-I' + os.path.join(scratch, 'woven'), '-I' + os.path.join(VERIF, 'rt'), '-I' + os.path.join(VERIF, 'spec'),
        '-include', os.path.join(VERIF, 'rt', 'verif_atomic_shim.h')]


def do_weave(specdir, mod, scratch, stack):
    """weave every file the spec lists; returns census"""
    census = {}
    site = 0
    clang_flags = BASE_DEFS + [stack, '-I' + os.path.join(REPO, 'include')]
    for w in getattr(mod, 'WEAVE', []):
        path = os.path.join(REPO, w['file'])
        if not os.path.exists(path):
            raise Undecided('weave: %s does not exist' % path)
        if w.get('replace_body'):
            # asm-bodied helper: the body (which goto-cc would silently drop) is replaced by a call to its trusted contract
            # (extraction change (d) of DESIGN.md 1.4); everything else in the file is copied verbatim
            text = open(path).read()
            for fn, newbody in w['replace_body'].items():
                m = re.search(r'\b%s\s*\([^)]*\)\s*\{' % re.escape(fn), text)
                if not m:
                    raise Undecided('weave: %s not found in %s' % (fn, w['file']))
                i, d = m.end(), 1
                while d:
                    c = text[i]
                    d += (c == '{') - (c == '}')
                    i += 1
                if 'asm' not in text[m.end():i]:
                    raise Undecided('weave: body of %s is no longer inline assembly - contract replacement refused' % fn)
                text = text[:m.end()] + ' /*<V: asm body replaced by trusted contract*/ ' + newbody + ' }' + text[i:]
                census[fn] = dict(file=w['file'], accesses=0, calls=0, returns=0, loops=0, trusted_contract=True)
            out = os.path.join(scratch, 'woven', w['file'])
            os.makedirs(os.path.dirname(out), exist_ok=True)
            open(out, 'w').write(text)
            continue
        loops = None
        if w.get('loops'):
            loops = json.load(open(os.path.join(specdir, w['loops'])))
            loops = {k: v for k, v in loops.items() if k in w['fns']}
        parse = os.path.join(REPO, w['parse']) if w.get('parse') else None
        try:
            woven, cen, site = weave.weave_file(path, w['fns'], clang_flags + w.get('cflags', []), parse, site, loops,
                                                split_rmw=w.get('split_rmw', True), stub_calls=(w.get('stub_calls') if isinstance(w.get('stub_calls'), dict) else tuple(w.get('stub_calls', ()))))
        except weave.WeaveError as e:
            raise Undecided('weave: %s' % e)
        out = os.path.join(scratch, 'woven', w['file'])
        os.makedirs(os.path.dirname(out), exist_ok=True)
        open(out, 'w').write(woven)
        for k, v in cen.items():
            v['file'] = w['file']
            census[k] = v
    return census


CLASS_PATTERNS = [
    (re.compile(r'\.(postcondition|precondition)\.'), 'contract'),
    (re.compile(r'\.(loop_invariant_base|loop_invariant_step|loop_assigns|loop_decreases|loop_step_unwinding)'), 'loop'),
    (re.compile(r'\.assigns\.|write_set_check|contracts_'), 'frame'),
    (re.compile(r'\.unwind\.'), 'unwinding'),
    (re.compile(r'no-body'), 'no-body'),
]


def classify(name, desc, group):
    if desc.startswith('canary:'):
        return 'canary'
    if 'undefined function should be unreachable' in desc:
        return 'no-body'   # DFCC's marker for a callee that has neither a body nor a contract: a tool limit, not a verdict
    if '.assertion.' in name:
        if desc.startswith('G:'):
            return 'step-monitor'
        if desc.startswith('L:'):
            return 'lemma'
        if desc.startswith('B:'):
            return 'bounded'
        if desc.startswith('H:') or desc.startswith('C'):
            return 'contract'
        if desc.startswith('O:'):
            return 'ownership'
        return 'assertion'
    if re.search(r'loop invariant|loop decreases|Check assigns clause inclusion for loop', desc, re.I):
        return 'loop'
    for pat, c in CLASS_PATTERNS:
        if pat.search(name):
            return c
    return 'memory-safety'


def obligation_key(group, name, desc, cls):
    """stable identity of an obligation: my own assertions by their text,
    generated ones by their generated name"""
    if cls in ('canary', 'step-monitor', 'lemma', 'bounded', 'ownership', 'assertion') or \
            (cls == 'contract' and '.assertion.' in name):
        return '%s:%s' % (group, desc)
    return '%s:%s' % (group, name)


def parse_cbmc_json(out):
    try:
        data = json.loads(out)
    except Exception:
        # cbmc was killed mid-output: try to close the list
        try:
            data = json.loads(out.rstrip().rstrip(',') + ']')
        except Exception:
            return None, 'unparsable cbmc output'
    results, status, msgs = None, None, []
    for item in data:
        if 'result' in item:
            results = item['result']
        if 'cProverStatus' in item:
            status = item['cProverStatus']
        if item.get('messageType') in ('ERROR',):
            msgs.append(item.get('messageText', ''))
    return results, status or ('error: ' + '; '.join(msgs)[:500])


def user_loops(gb, timeout=120):
    rc, out, err, _ = run(['goto-instrument', '--show-loops', gb], timeout)
    loops = re.findall(r'^Loop (\S+):', out, re.M)
    return [l for l in loops if not l.startswith('__CPROVER') and not l.startswith('__atomic')
            and not re.match(r'^(memcpy|memset|memcmp|free|malloc|calloc|realloc|strlen|memmove)\.', l)]


def run_group(pid, specdir, g, scratch, tier, stack, want_trace=None):
    """returns dict(name, obligations=[...], seconds, cmd, error)"""
    name = g['name']
    res = dict(name=name, mode=g.get('mode', 'H'), obligations=[], seconds=0.0, cmds=[], error=None,
               functions=g.get('functions', []), cls=('bounded' if g.get('bounded') else g.get('cls', 'contract')),
               bound=g.get('bound') or g.get('bound_note'))
    t0 = time.time()
    tu = os.path.join(specdir, g['tu'])
    wd = os.path.join(scratch, 'g_' + name)
    os.makedirs(wd, exist_ok=True)
    gstack = g.get('stack', stack)
    defs = cflags(scratch, [gstack] + g.get('defs', []) + (['-DVERIF_MODE_D'] if g.get('mode') == 'D' else ['-DVERIF_MODE_H']))
    gb0, gb1 = os.path.join(wd, 'a.gb'), os.path.join(wd, 'b.gb')
    harness = g['harness']
    cmd = ['goto-cc'] + defs + ['--function', harness, tu, '-o', gb0]
    if g.get('export_static'):
        cmd.insert(1, '--export-file-local-symbols')
    res['cmds'].append(' '.join(cmd))
    rc, out, err, _ = run(cmd, 300)
    if rc != 0:
        res['error'] = 'goto-cc failed: ' + (err or out)[-1500:]
        return res
    gi = ['goto-instrument']
    if g.get('mode') == 'D':
        gi += ['--dfcc', harness, '--enforce-contract', g['enforce']]
        for r in g.get('replace', []):
            gi += ['--replace-call-with-contract', r]
        # callees the unchanged code does not call but a changed one might (e.g. a trylock in place of a lock): replaced by their contract only
        # when the woven source mentions them (DFCC refuses to replace a function that does not occur)
        woven_txt = None
        for r in g.get('replace_if_called', []):
            if woven_txt is None:
                woven_txt = ''
                for root, _, files in os.walk(os.path.join(scratch, 'woven')):
                    for fn_ in files:
                        try:
                            woven_txt += open(os.path.join(root, fn_)).read()
                        except OSError:
                            pass
            if re.search(r'\b%s\s*\(' % re.escape(r), woven_txt):
                gi += ['--replace-call-with-contract', r]
        gi += ['--apply-loop-contracts']
    else:
        for r in g.get('remove_bodies', []):
            gi += ['--remove-function-body', r]
        if g.get('loop_contracts'):
            gi += ['--apply-loop-contracts']
    cur = gb0
    if len(gi) > 1:
        if g.get('mode') != 'D' and g.get('loop_contracts'):
            # non-DFCC loop contracts inline everything: drop unused code first
            rc, out, err, _ = run(['goto-instrument', '--drop-unused-functions', gb0, gb0 + '.d'], 300)
            if rc == 0:
                cur = gb0 + '.d'
        cmd = gi + [cur, gb1]
        res['cmds'].append(' '.join(cmd))
        rc, out, err, _ = run(cmd, g.get('timeout', 300))
        for _retry in range(8):
            # a change that removes the last call of a callee makes DFCC refuse its replacement ("Function to replace 'f' not found"):
            # drop that replacement and instrument again
            mnf = re.search(r"Function to replace '([^']+)' not found", out + err)
            if rc == 0 or not mnf:
                break
            name_nf = mnf.group(1)
            k = 0
            while k + 1 < len(gi):
                if gi[k] == '--replace-call-with-contract' and gi[k + 1] == name_nf:
                    del gi[k:k + 2]
                else:
                    k += 1
            cmd = gi + [cur, gb1]
            res['cmds'].append(' '.join(cmd))
            rc, out, err, _ = run(cmd, g.get('timeout', 300))
        if rc != 0 or not os.path.exists(gb1):
            res['error'] = 'goto-instrument failed: ' + (out + err)[-1500:]
            return res
        if 'fence' not in out and re.search(r'not side-effect free|Loop contracts are unsupported', out + err):
            res['error'] = 'goto-instrument: ' + (out + err)[-800:]
            return res
        cur = gb1
    # only code reachable from the harness is checked (and only its canaries count)
    rc, out, err, _ = run(['goto-instrument', '--drop-unused-functions', cur, cur + '.u'], 300)
    if rc == 0 and os.path.exists(cur + '.u'):
        cur = cur + '.u'
    # loop census: every remaining user loop must be declared by a bounded group
    loops = user_loops(cur)
    cb = ['cbmc'] + (g.get('checks') if g.get('checks') is not None else CBMC_CHECKS) + ['--json-ui']
    if loops:
        if not g.get('unwind'):
            # a loop the specification does not know (the code under test gained one): unwind it a few times, with unwinding assertions.
            # Failures found within the bound are real; if the bound does not suffice the group is undecided ("bound too small").
            g = dict(g); g['unwind'] = int(os.environ.get('VERIF_FALLBACK_UNWIND', '4'))
            res['fallback_unwind'] = 'unexpected loop(s) %s: unwound %d times' % (loops, g['unwind'])
        cb += ['--unwind', str(g['unwind'] if tier == 'quick' or not g.get('unwind_thorough') else g['unwind_thorough']),
               '--unwinding-assertions']
        if not g.get('exact_unwind'):
            res['cls'] = 'bounded'   # exact_unwind: the harness fixes the loop-controlling input; passing unwinding assertions make it complete
    cb += g.get('cbmc_flags', [])
    if tier == 'thorough' and g.get('thorough_flags'):
        cb += g['thorough_flags']
    if want_trace:
        cb += ['--trace', '--property', want_trace]
    cb += [cur]
    res['cmds'].append(' '.join(cb))
    rc, out, err, secs = run(cb, g.get('timeout', 300) * (3 if tier == 'thorough' else 1))
    res['solver_seconds'] = round(secs, 2)
    if rc == -999:
        res['error'] = 'cbmc timeout'
        return res
    results, status = parse_cbmc_json(out)
    if want_trace:
        res['raw'] = out
    if results is None:
        res['error'] = 'cbmc: %s (rc=%s) %s' % (status, rc, err[-500:])
        return res
    # a solver that ran out of memory or was interrupted leaves obligations UNKNOWN / ERROR (and cbmc may still print a partial result
    # list): that is a tool limit, never a verdict
    odd = [r for r in results if r.get('status') not in ('SUCCESS', 'FAILURE')]
    oom = 'out of memory' in out.lower() or 'out of memory' in (err or '').lower()
    hard = [r for r in odd if r.get('status') != 'UNKNOWN']
    if hard or oom or (odd and not any(r.get('status') == 'FAILURE' for r in results)):
        res['error'] = 'cbmc left %d obligations without a verdict (%s)%s' % (len(odd), ','.join(sorted(set(str(r.get('status')) for r in odd))) or 'partial run',
                                                                           '; solver out of memory' if oom else '')
        return res
    # (cbmc marks obligations UNKNOWN when an earlier failure on every path to them — e.g. a dereference of freed memory — makes their
    #  status moot: the failures it did report stand, the UNKNOWN ones are simply absent from the ledger)
    results = [r for r in results if r.get('status') in ('SUCCESS', 'FAILURE')]
    for r in results:
        pname, desc = r.get('property', ''), r.get('description', '')
        cls = classify(pname, desc, name)
        if cls == 'memory-safety' and res['cls'] == 'bounded':
            pass
        ob = dict(group=name, name=pname, description=desc, cls=cls, status=r.get('status'),
                  key=obligation_key(name, pname, desc, cls),
                  line=r.get('sourceLocation', {}).get('line'), file=r.get('sourceLocation', {}).get('file'),
                  bounded=(res['cls'] == 'bounded'))
        if want_trace and r.get('trace'):
            ob['trace'] = r['trace']
        res['obligations'].append(ob)
    # thorough tier: groups that finished quickly are decided a second time by an independent SAT back end (CaDiCaL unless the group
    # already asks for it, then MiniSat); the two verdict maps must agree, otherwise the group is undecided (tool problem, never a verdict)
    if tier == 'thorough' and not want_trace and secs < 120 and not os.environ.get('VERIF_SELFTEST_CHILD'):
        second = ['--sat-solver', 'minisat2'] if 'cadical' in cb else ['--sat-solver', 'cadical']
        cb2 = [c for c in cb[:-1] if c not in ('--sat-solver', 'cadical')] + second + [cur]
        rc2, out2, err2, secs2 = run(cb2, max(300, int(secs * 10)))
        results2, status2 = parse_cbmc_json(out2) if rc2 != -999 else (None, 'timeout')
        if results2 is not None:
            v1 = {(r.get('property'), r.get('description')): r.get('status') for r in results}
            v2 = {(r.get('property'), r.get('description')): r.get('status') for r in results2}
            res['second_backend'] = dict(solver=second[1], seconds=round(secs2, 2), agree=(v1 == v2))
            if v1 != v2:
                res['error'] = 'SAT back ends disagree on %d obligations' % len([k for k in v1 if v1.get(k) != v2.get(k)])
                return res
        else:
            res['second_backend'] = dict(solver=second[1], seconds=round(secs2, 2), agree=None, note='second back end gave no verdict: %s' % status2)
    res['seconds'] = round(time.time() - t0, 2)
    return res


def extract_tape(trace):
    tape = []
    for st in trace:
        if st.get('stepType') == 'assignment' and st.get('lhs') == 'verif_tape_v' and not st.get('hidden') and \
                st.get('sourceLocation', {}).get('function') == 'verif_u64':
            v = st.get('value', {})
            b = v.get('binary')
            if b is not None:
                tape.append(int(b, 2))
            elif 'data' in v:
                try:
                    tape.append(int(re.sub(r'[^0-9-]', '', v['data'])) & ((1 << 64) - 1))
                except ValueError:
                    tape.append(0)
    return tape


def native_replay(pid, specdir, g, scratch, stack, tape, wd):
    """compile the same woven real function + the same spec TU natively and run
    it on the counterexample's tape.  Returns (reproduced?, output)."""
    exe = os.path.join(wd, 'replay.exe')
    tu = os.path.join(specdir, g['tu'])
    defs = cflags(scratch, [g.get('stack', stack)] + g.get('defs', []) + ['-DVERIF_NATIVE', '-DVERIF_MODE_H',
                                                                            '-DVERIF_HARNESS=' + g['harness']])
    cmd = ['gcc', '-O0', '-g', '-w', '-ffunction-sections', '-fdata-sections', '-fsanitize=address,undefined',
           '-fno-sanitize-recover=undefined'] + defs + \
          [tu, os.path.join(VERIF, 'rt', 'verif_native_main.c'), '-o', exe, '-lpthread',
           '-Wl,--gc-sections']  # functions of the TU that the harness never calls may reference absent code: dropped
    rc, out, err, _ = run(cmd, 300)
    if rc != 0:
        return False, 'native build failed: ' + err[-1500:], ' '.join(cmd)
    tf = os.path.join(wd, 'tape.txt')
    open(tf, 'w').write('\n'.join(str(x) for x in tape) + '\n')
    p = subprocess.run([exe, tf], capture_output=True, text=True, timeout=60)
    outp = (p.stdout + p.stderr)[-3000:]
    rep = re.search(r'^REPRODUCED:', p.stdout, re.M) is not None
    if 'AddressSanitizer' in p.stderr or 'runtime error' in p.stderr:
        rep = True
    if 'REPLAY-INVALID' in p.stdout:
        rep = False
    return rep, outp, ' '.join(cmd)


def load_known():
    f = os.path.join(VERIF, 'known_findings.jsonl')
    out = []
    if os.path.exists(f):
        for l in open(f):
            l = l.strip()
            if l and not l.startswith('#'):
                out.append(json.loads(l))
    return out


def scan_trusted(specdir):
    """mechanical scan of the spec tree for assumptions and trusted stubs"""
    items = []
    for root, _, files in os.walk(specdir):
        for fn in sorted(files):
            if not fn.endswith(('.c', '.h', '.json', '.inc')):
                continue
            p = os.path.join(root, fn)
            for i, line in enumerate(open(p, errors='replace'), 1):
                if re.search(r'\bTRUSTED\b|\bASSUMPTION\b', line):
                    items.append('%s:%d %s' % (os.path.relpath(p, VERIF), i, line.strip()[:160]))
    return items


def main():
    args = [a for a in sys.argv[1:] if not a.startswith('--')]
    flags = [a for a in sys.argv[1:] if a.startswith('--')]
    if len(args) < 1:
        print(__doc__)
        sys.exit(2)
    for f in flags:
        if f.startswith('--replay='):
            sys.exit(replay_file(f.split('=', 1)[1]))
    if '--replay' in flags and args:
        sys.exit(replay_file(args[-1]))
    pid = args[0]
    tier = args[1] if len(args) > 1 else os.environ.get('VERIF_TIER', 'quick')
    only = None
    for f in flags:
        if f.startswith('--only='):
            only = f.split('=', 1)[1].split(',')
    t0 = time.time()
    seed = int(os.environ.get('VERIF_SEED', '0') or 0)
    evidence_path = os.path.join(os.environ.get('VERIF_EVIDENCE_DIR', os.path.join(VERIF, 'evidence')), pid + '.json')
    scratch = tempfile.mkdtemp(prefix='verif_%s_' % pid)
    rc = 2
    try:
        rc = run_property(pid, tier, flags, only, scratch, t0, seed, evidence_path)
    except Undecided as e:
        print('UNDECIDED property=%s: %s' % (pid, e))
        rc = 2
    finally:
        if '--keep' in flags:
            print('scratch kept at', scratch)
        else:
            shutil.rmtree(scratch, ignore_errors=True)
    sys.exit(rc)


def run_property(pid, tier, flags, only, scratch, t0, seed, evidence_path):
    specdir, mod = load_spec(pid)
    stack = getattr(mod, 'STACK', DEFAULT_STACK)
    census = do_weave(specdir, mod, scratch, stack)
    groups = [dict(g) for g in mod.GROUPS if tier == 'thorough' or not g.get('thorough_only')]
    # lemma groups: one cbmc run per lemma function
    expanded = []
    for g in groups:
        if g.get('kind') == 'lemmas':
            src = open(os.path.join(specdir, g['tu'])).read()
            for m in re.finditer(r'^(?:void\s+(lemma_\w+)\s*\(void\)|STEP_LEMMA\((lemma_\w+),)', src, re.M):
                e = dict(g)
                ln = m.group(1) or m.group(2)
                e['name'] = '%s.%s' % (g['name'], ln)
                e['harness'] = ln
                e['mode'] = 'H'
                e['cls'] = 'lemma'
                expanded.append(e)
        else:
            expanded.append(g)
    # imported groups: obligation groups of ANOTHER property's specification that this property also rests on (same spec files, same weaving,
    # run in their own scratch sub-directory); their obligations are reported under '<prop>.<group>'
    for imp in getattr(mod, 'IMPORTS', []):
        specdir2, mod2 = load_spec(imp['prop'])
        scratch2 = os.path.join(scratch, 'imp_' + imp['prop'])
        os.makedirs(scratch2, exist_ok=True)
        stack2 = getattr(mod2, 'STACK', DEFAULT_STACK)
        census2 = do_weave(specdir2, mod2, scratch2, stack2)
        for k, v in census2.items():
            census.setdefault(k, v)
        for g in mod2.GROUPS:
            if g.get('name') in imp['groups'] and g.get('kind') != 'lemmas' and (tier == 'thorough' or not g.get('thorough_only')):
                e = dict(g)
                e['name'] = '%s.%s' % (imp['prop'], g['name'])
                e['_specdir'], e['_scratch'], e['_stack'] = specdir2, scratch2, stack2
                expanded.append(e)
    if only:
        expanded = [g for g in expanded if any(g['name'] == o or g['name'].startswith(o + '.') for o in only)]
    static_facts = []
    if hasattr(mod, 'static_facts'):
        static_facts = mod.static_facts(REPO, scratch)
    results = []
    with cf.ThreadPoolExecutor(max_workers=int(os.environ.get('VERIF_JOBS', '14'))) as ex:
        futs = [ex.submit(run_group, pid, g.get('_specdir', specdir), g, g.get('_scratch', scratch), tier, g.get('_stack', stack)) for g in expanded]
        for f in futs:
            results.append(f.result())
    gmap = {g['name']: g for g in expanded}

    # ---- verdict -----------------------------------------------------------
    errors = [r for r in results if r['error']]
    ledger = [o for r in results for o in r['obligations']]
    known = [k for k in load_known() if k.get('property') == pid and k.get('status') == 'known']
    expected_file = os.path.join(specdir, 'expected.json')
    # (preconditions of replaced callees exist per call site of the code under test: not part of the expected set;
    #  the same holds for the 'C:' assertions inside hand-expanded callee contracts;
    #  loop obligations exist per loop of the code under test - a loop that lost its contract is caught by the loop census)
    keys = sorted(set(o['key'] for o in ledger if o['cls'] not in ('memory-safety', 'frame', 'unwinding', 'loop')
                      and '.precondition.' not in o['key'] and not o['description'].startswith('C: ')))
    if '--bless' in flags:
        if errors:
            print('cannot bless: errors', [(r['name'], r['error']) for r in errors])
            return 2
        old = json.load(open(expected_file)) if (only and os.path.exists(expected_file)) else []
        json.dump(sorted(set(keys) | set(old)), open(expected_file, 'w'), indent=1)
        print('blessed %d obligation keys' % len(keys))
    undecided = []
    und_groups = set()   # groups with an undecided item: their failures are not reported; failures of fully decided groups are
    und_soft = set()     # groups that merely lack an expected obligation (the code changed shape): their failed obligations still stand
    und_global = False
    for r in errors:
        undecided.append('%s: %s' % (r['name'], r['error'])); und_groups.add(r['name'])
    if os.path.exists(expected_file) and not only:
        exp = json.load(open(expected_file))
        present = set(keys)
        thorough_only = set()
        for e in exp:
            if re.match(r'^[^:]+:C: ', e) or '.precondition.' in e:
                continue  # (files blessed before these classes were excluded from the expected set)
            if e not in present:
                gname = e.split(':', 1)[0]
                if gname not in gmap and tier == 'quick':
                    continue  # obligation of a thorough-only group
                undecided.append('expected obligation missing: ' + e); und_soft.add(gname)
    elif not only and '--bless' not in flags:
        undecided.append('no expected.json (run with --bless on the unchanged tree)'); und_global = True
    canaries = [o for o in ledger if o['cls'] == 'canary']
    for o in canaries:
        if o['status'] != 'FAILURE':
            o['reach_fail'] = True
    for o in ledger:
        if o['cls'] == 'no-body' and o['status'] == 'FAILURE':
            undecided.append('unmodelled callee: %s %s' % (o['name'], o['description'])); und_groups.add(o['group'])
        if o['cls'] == 'unwinding' and o['status'] == 'FAILURE' and not o['bounded']:
            undecided.append('loop escaped its contract: %s' % o['name']); und_groups.add(o['group'])
    failed = []
    for o in ledger:
        if o['cls'] in ('canary',):
            if o.get('reach_fail'):
                failed.append(o)
            continue
        if o['cls'] in ('no-body',):
            continue
        if o['cls'] == 'unwinding':
            if o['status'] == 'FAILURE' and o['bounded']:
                undecided.append('bound too small: %s' % o['name'])
                # an unexpected loop unwound by the fallback: obligations that fail within the bound still stand
                (und_soft if any(r.get('fallback_unwind') and r['name'] == o['group'] for r in results) else und_groups).add(o['group'])
            continue
        if o['status'] != 'SUCCESS':
            failed.append(o)
    for sfact in static_facts:
        if not sfact['ok']:
            failed.append(dict(group='static', name=sfact['name'], description=sfact['text'], cls='static-fact',
                               status='FAILURE', key='static:' + sfact['name'], bounded=False))
    violations, known_hits = [], []
    for o in failed:
        hit = None
        for k in known:
            if k.get('obligation') == o['key'] or (k.get('obligation_re') and re.search(k['obligation_re'], o['key'])):
                hit = k
                break
        if hit:
            known_hits.append((hit, o))
        else:
            violations.append(o)
    # a known finding that no longer fails is fine (fixed); nothing to do.

    lines = []
    seen = set()
    for k, o in known_hits:
        if k['id'] in seen:
            continue
        seen.add(k['id'])
        lines.append('KNOWN-FINDING: property=%s %s [%s]' % (pid, k['text'], o['key']))
    replay_files = []
    reportable = [] if und_global else [o for o in violations if o['group'] not in und_groups]
    if reportable:
        os.makedirs(os.path.join(REPLAYS, pid), exist_ok=True)
        done_groups = set()
        for o in reportable:
            if len(replay_files) >= 3:
                lines.append('VIOLATION property=%s replay=%s obligation="%s" no-failing-input-found' % (
                    pid, replay_files[0]['path'], o['key']))
                if len(lines) > 14:
                    lines.append('... %d failing obligations in total (see evidence coverage.failed_obligations)' % len(violations))
                    break
                continue
            done_groups.add((o['group'], o['cls'] == 'canary'))
            if os.environ.get('VERIF_NO_REPLAY') or os.environ.get('VERIF_SELFTEST_CHILD'):
                # detection-only runs (specification self-test, tools/mutest.sh -q): no counterexample extraction, no native replay
                lines.append('VIOLATION property=%s replay=none obligation="%s" no-failing-input-found' % (pid, o['key']))
                replay_files.append(dict(path='none', reproduced=False))
                continue
            gg = gmap.get(o['group']) or {}
            rf = make_replay(pid, gg.get('_specdir', specdir), gmap.get(o['group']), o, gg.get('_scratch', scratch), tier, gg.get('_stack', stack))
            replay_files.append(rf)
            suffix = '' if rf['reproduced'] else ' no-failing-input-found'
            lines.append('VIOLATION property=%s replay=%s obligation="%s"%s' % (pid, rf['path'], o['key'], suffix))
    # ---- evidence ------------------------------------------------------------
    unb = [o for o in ledger if not o['bounded'] and o['cls'] not in ('canary', 'no-body', 'unwinding')]
    bnd = [o for o in ledger if o['bounded'] and o['cls'] not in ('canary', 'no-body', 'unwinding')]
    by_class = {}
    for o in unb:
        by_class[o['cls']] = by_class.get(o['cls'], 0) + 1
    known_keys = set(o['key'] for _, o in known_hits)
    # obligations recorded as known findings are reported separately (coverage.known_findings), not counted as proved
    unb = [o for o in unb if o['key'] not in known_keys]
    samples = []
    for o in ledger:
        if o['cls'] in ('contract', 'step-monitor', 'lemma', 'loop', 'ownership') and len(samples) < 8 and \
                o['status'] == 'SUCCESS' and not any(s['obligation'] == o['key'] for s in samples):
            samples.append(dict(obligation=o['key'], description=o['description'], cls=o['cls'], status=o['status']))
    for o in violations[:5]:
        samples.append(dict(obligation=o['key'], description=o['description'], cls=o['cls'], status='VIOLATED'))
    trusted = scan_trusted(specdir) + scan_trusted(os.path.join(VERIF, 'rt')) + list(getattr(mod, 'TRUSTED', []))
    ev = dict(
        property_id=pid, tier=tier, seed=seed, level='proof',
        coverage=dict(
            obligations=len(unb),
            discharged=len([o for o in unb if o['status'] == 'SUCCESS']),
            checker_cmd='tools/weave.py (clang AST) -> goto-cc -> goto-instrument [--dfcc --enforce-contract f '
                        '--replace-call-with-contract g --apply-loop-contracts] -> cbmc %s (MiniSat); per group: %s'
                        % (' '.join(CBMC_CHECKS), '; '.join('%s[%s]' % (r['name'], r['mode']) for r in results)),
            trusted_base=trusted,
            by_class=by_class,
            functions_under_contract=[dict(function=k, file=v['file'], woven_accesses=v['accesses'],
                                           woven_calls=v['calls'], loops=v.get('loops', 0),
                                           loop_contracts=len(v.get('loop_contracts', []))) for k, v in census.items()],
            groups=[dict(name=r['name'], mode=r['mode'], cls=r['cls'], seconds=r['seconds'],
                         solver_seconds=r.get('solver_seconds'), backend=('cbmc 6.11 SAT (CaDiCaL)' if 'cadical' in ' '.join(r.get('cmds', [])[-1:]) else 'cbmc 6.11 SAT (MiniSat)'),
                         second_backend=r.get('second_backend'),
                         obligations=len(r['obligations']), bound=r.get('bound'), error=r['error'],
                         functions=r['functions']) for r in results],
            bounded=dict(obligations=len(bnd), passed=len([o for o in bnd if o['status'] == 'SUCCESS']),
                         note='bounded stand-ins; never counted in obligations/discharged',
                         groups=[dict(name=r['name'], bound=r.get('bound')) for r in results if r['cls'] == 'bounded']),
            canaries=dict(total=len(canaries), reachable=len([o for o in canaries if o['status'] == 'FAILURE'])),
            static_facts=static_facts,
            spec_assumes=scan_assumes(specdir, [g for g in expanded]),
            known_findings=[dict(id=k['id'], obligation=o['key']) for k, o in known_hits],
            undecided=undecided,
            samples=samples,
            failed_obligations=[o['key'] for o in failed],
        ),
        assumptions=list(getattr(mod, 'ASSUMPTIONS', [])) + STANDING_ASSUMPTIONS,
        wall_s=round(time.time() - t0, 2),
        violations=len(violations),
    )
    if tier == 'thorough' and not only and '--no-selftest' not in flags and not os.environ.get('VERIF_SELFTEST_CHILD'):
        # specification self-test: every kept mutant of this property (spec/<id>/mutants/*.diff, applied to a scratch copy of the sources,
        # never to /repo) must make the quick check report a violation, every equivalent change must leave it quiet.  The outcome is
        # recorded; it never changes this run's verdict (a miss says the specification is weak, not that the property is violated).
        ev['coverage']['spec_selftest'] = selftest(pid, specdir, scratch)
    os.makedirs(os.path.dirname(evidence_path), exist_ok=True)
    json.dump(ev, open(evidence_path, 'w'), indent=1)

    for r in results:
        nfail = len([o for o in r['obligations'] if o['status'] != 'SUCCESS' and o['cls'] != 'canary'])
        print('  group %-40s mode=%s %6.1fs obligations=%-4d failed=%d %s' % (
            r['name'], r['mode'], r['seconds'], len(r['obligations']), nfail, ('ERROR: ' + r['error'][:300]) if r['error'] else ''))
    for l in lines:
        print(l)
    print('property=%s tier=%s obligations=%d discharged=%d bounded=%d/%d known=%d violations=%d undecided=%d wall=%.1fs' % (
        pid, tier, ev['coverage']['obligations'], ev['coverage']['discharged'], ev['coverage']['bounded']['passed'],
        len(bnd), len(seen), len(violations), len(undecided), time.time() - t0))
    if undecided:
        for u in undecided[:20]:
            print('UNDECIDED property=%s: %s' % (pid, u))
    if reportable:
        return 1    # a failed obligation in a fully decided group stands, whatever else could not be decided
    if undecided:
        return 2
    if violations:
        return 1
    return 0


def selftest(pid, specdir, scratch):
    import concurrent.futures
    jobs = [(f, 1) for f in sorted(glob.glob(os.path.join(specdir, 'mutants', '*.diff')))] + \
           [(f, 0) for f in sorted(glob.glob(os.path.join(specdir, 'equivalent', '*.diff')))]
    def one(job):
        diff, want = job
        name = os.path.basename(diff)[:-5]
        d = tempfile.mkdtemp(prefix='verif_self_%s_' % pid)
        try:
            repo2 = os.path.join(d, 'repo')
            shutil.copytree(REPO, repo2, ignore=shutil.ignore_patterns('_build', '.git', '*.o', '*.a'))
            r = subprocess.run(['patch', '-p1', '-s', '-i', diff], cwd=repo2, capture_output=True, text=True)
            if r.returncode != 0:
                return name, want, 'patch-failed'
            env = dict(os.environ, VERIF_REPO=repo2, VERIF_EVIDENCE_DIR=os.path.join(d, 'ev'), VERIF_REPLAY_DIR=os.path.join(d, 'rp'),
                       VERIF_SELFTEST_CHILD='1', VERIF_NO_NATIVE='1')
            r = subprocess.run([sys.executable, os.path.abspath(__file__), pid, 'quick'], env=env, capture_output=True, text=True)
            return name, want, r.returncode
        finally:
            shutil.rmtree(d, ignore_errors=True)
    res = []
    with concurrent.futures.ThreadPoolExecutor(max_workers=int(os.environ.get('VERIF_SELFTEST_JOBS', '4'))) as ex:
        for name, want, rc in ex.map(one, jobs):
            res.append(dict(change=name, kind='mutant' if want else 'equivalent', exit=rc, ok=(rc == 1) if want else (rc == 0)))
    bad = [r for r in res if not r['ok']]
    for r in bad:
        print('SELFTEST-WARNING property=%s %s %s: quick check exited %s' % (pid, r['kind'], r['change'], r['exit']))
    return dict(mutants=len([r for r in res if r['kind'] == 'mutant']), mutants_caught=len([r for r in res if r['kind'] == 'mutant' and r['ok']]),
                equivalents=len([r for r in res if r['kind'] == 'equivalent']), equivalents_quiet=len([r for r in res if r['kind'] == 'equivalent' and r['ok']]),
                not_ok=[r for r in bad])


def replay_file(path):
    """./check --replay <file>: re-runs the recorded counterexample (the verifier's nondet values, as a tape) natively against the CURRENT
    /repo sources.  exit 1 = the failing obligation is reproduced, 0 = it is not (e.g. the code was repaired), 2 = nothing to replay."""
    rec = json.load(open(path))
    print('replay of %s: obligation "%s"' % (rec.get('property'), rec.get('obligation')))
    if not rec.get('tape'):
        print('no input recorded for this obligation (%s); verifier commands: %s' % (rec.get('note', 'no-failing-input-found'), rec.get('verifier_cmds')))
        return 2
    pid = rec['property']
    specdir, mod = load_spec(pid)
    stack = getattr(mod, 'STACK', DEFAULT_STACK)
    g = None
    for gg in mod.GROUPS:
        if gg.get('name') == rec.get('group'):
            g = gg
    if g is None:
        for gg in mod.GROUPS:
            if rec.get('group', '').startswith(gg.get('name', '') + '.'):   # lemma groups are expanded per lemma
                g = dict(gg); g['name'] = rec['group']; g['harness'] = rec['group'].split('.', 1)[1]
    if g is None:
        print('group %s no longer exists' % rec.get('group'))
        return 2
    scratch = tempfile.mkdtemp(prefix='verif_replay_')
    try:
        do_weave(specdir, mod, scratch, stack)
        wd = os.path.join(scratch, 'replay'); os.makedirs(wd, exist_ok=True)
        ok, outp, cmd = native_replay(pid, specdir, g, scratch, g.get('stack', stack), rec['tape'], wd)
        print(outp.strip()[-2000:])
        print('REPRODUCED' if ok else 'not reproduced on the current tree')
        return 1 if ok else 0
    finally:
        shutil.rmtree(scratch, ignore_errors=True)


def scan_assumes(specdir, groups):
    """mechanical scan: every VASSUME / __CPROVER_assume in the specification files this run used (the environment = rely, the harness
    preconditions, capacity bounds).  They are assumptions, not proof; the count is reported so that a new one cannot slip in unnoticed."""
    out = {}
    files = set()
    for g in groups:
        files.add(os.path.normpath(os.path.join(g.get('_specdir', specdir), g['tu'])))
    for f in sorted(files):
        try:
            txt = open(f).read()
        except OSError:
            continue
        out[os.path.relpath(f, VERIF)] = dict(VASSUME=len(re.findall(r'\bVASSUME\s*\(', txt)), cprover_assume=len(re.findall(r'__CPROVER_assume\s*\(', txt)))
    return dict(files=out, total=sum(v['VASSUME'] + v['cprover_assume'] for v in out.values()),
                note='assumptions made by the specification (environment/rely models, harness preconditions, capacity bounds); listed, not proved')


def undecided_blocks(undecided):
    return bool(undecided)


def make_replay(pid, specdir, g, o, scratch, tier, stack):
    safe = re.sub(r'[^A-Za-z0-9_.-]+', '_', o['key'])[:120]
    path = os.path.join(REPLAYS, pid, safe + '.replay.json')
    rec = dict(property=pid, obligation=o['key'], name=o['name'], description=o['description'], cls=o['cls'],
               group=o['group'], reproduced=False, path=path)
    if g is None or o['cls'] in ('canary', 'static-fact'):
        rec['note'] = ('reachability obligation: the function can no longer return in any state the invariant allows'
                       if o['cls'] == 'canary' else 'static fact failed') + '; no input to replay'
        json.dump(rec, open(path, 'w'), indent=1)
        return rec
    wd = os.path.join(scratch, 'replay_' + hashlib.md5(o['key'].encode()).hexdigest()[:8])
    os.makedirs(wd, exist_ok=True)
    g2 = dict(g)
    target = o['name']
    if g.get('mode') == 'D' and g.get('kind') != 'lemmas':
        # DFCC's own havocs (replaced callees) are not on the tape: re-run the same obligation group in harness mode
        # (callee contracts expanded by hand into stubs that draw from the tape) and trace whatever fails there
        g2['mode'] = 'H'
        g2['name'] = g['name'] + '_H'
        g2['loop_contracts'] = True
        r0 = run_group(pid, specdir, g2, scratch, tier, stack)
        cand = [ob for ob in r0['obligations'] if ob['status'] == 'FAILURE' and ob['cls'] not in ('canary', 'unwinding', 'no-body')]
        if r0['error'] or not cand:
            rec['note'] = 'harness-mode re-run gave no failing obligation to trace (%s); verifier output of the contract run stands' % (r0['error'] or 'all passed')
            rec['verifier_cmds'] = r0['cmds']
            json.dump(rec, open(path, 'w'), indent=1)
            return rec
        pref = [ob for ob in cand if ob['description'] == o['description']] or cand
        target = pref[0]['name']
        rec['harness_mode_obligation'] = pref[0]['key']
    r = run_group(pid, specdir, g2, scratch, tier, stack, want_trace=target)
    trace = None
    for ob in r['obligations']:
        if ob['name'] == target and ob.get('trace'):
            trace = ob['trace']
    rec['verifier_cmds'] = r['cmds']
    if trace is None:
        rec['note'] = 'verifier gave no trace: ' + str(r.get('error'))
        json.dump(rec, open(path, 'w'), indent=1)
        return rec
    tape = extract_tape(trace)
    rec['tape'] = tape
    # a compact rendering of the verifier's counterexample
    steps = []
    for st in trace:
        if st.get('stepType') == 'assignment' and not st.get('hidden') and \
                not str(st.get('sourceLocation', {}).get('file', '')).startswith('<builtin'):
            lhs = st.get('lhs', '')
            if lhs.startswith('__CPROVER') or 'contracts' in lhs or lhs.startswith('tmp_') or lhs.startswith('return_value'):
                continue
            steps.append('%s:%s %s = %s' % (os.path.basename(str(st.get('sourceLocation', {}).get('file', ''))),
                                           st.get('sourceLocation', {}).get('line'), lhs,
                                           st.get('value', {}).get('data', st.get('value', {}).get('name'))))
    rec['verifier_trace_excerpt'] = steps[-120:]
    if g.get('no_native'):
        rec['note'] = 'no native replay for this group: ' + str(g['no_native'])
    else:
        try:
            ok, outp, cmd = native_replay(pid, specdir, g, scratch, stack, tape, wd)
            rec['reproduced'] = ok
            rec['native_cmd'] = cmd + ' && ./replay.exe tape.txt'
            rec['native_output'] = outp
        except Exception as e:  # noqa
            rec['note'] = 'native replay failed to run: %s' % e
    json.dump(rec, open(path, 'w'), indent=1)
    return rec


STANDING_ASSUMPTIONS = [
    'A1 sequential consistency of all shared accesses (CBMC executes atomics SC; memory_order arguments and fences are not semantically checked)',
    'A2 inline assembly (fiber_context_swap, compare_and_swap2, fences, pause) is dropped by goto-cc; where used it is replaced by a trusted contract',
    'A3 compare-exchange never fails spuriously (weak modelled strong; true for x86 lock cmpxchg)',
    'A4 CBMC machine model: LP64 little-endian, gcc bit-field layout',
    'A10 progress/termination of spin and retry loops whose exit depends on other fibers is not proved (safety form only)',
    'rely/guarantee soundness argument (DESIGN.md 1.2) and the spec files, weaver and step-monitor runtime are trusted; canaries and spec mutation tests guard against vacuity',
]

if __name__ == '__main__':
    main()
