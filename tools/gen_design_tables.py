#!/usr/bin/env python3
"""Regenerates the machine-derived tables of DESIGN.md section 11 (between the AUTOGEN markers) from spec/*/groups.py, spec/*/mutants,
spec/*/equivalent, seeded/*/meta.json, known_findings.jsonl and evidence/*.json."""
import os, sys, json, glob, importlib.util, re
V = os.path.dirname(os.path.dirname(os.path.abspath(__file__)))
def load(pid):
    p = os.path.join(V, 'spec', pid, 'groups.py')
    if not os.path.exists(p): return None
    spec = importlib.util.spec_from_file_location('g_' + pid, p); m = importlib.util.module_from_spec(spec); spec.loader.exec_module(m); return m
out = []
out.append('| property | groups (unbounded / bounded / lemma) | functions of /repo under contract | obligations discharged (quick) | bounded stand-ins | solver wall (quick) |')
out.append('|---|---|---|---|---|---|')
pids = sorted(d for d in os.listdir(os.path.join(V, 'spec')) if re.match(r'C\d\d$', d))
for pid in pids:
    m = load(pid)
    if not m: continue
    gs = m.GROUPS
    nb = sum(1 for g in gs if g.get('bounded')); nl = sum(1 for g in gs if g.get('kind') == 'lemmas'); nu = len(gs) - nb - nl
    fns = sorted(set(f for g in gs for f in g.get('functions', [])))
    ev = {}
    try: ev = json.load(open(os.path.join(V, 'evidence', pid + '.json')))
    except Exception: pass
    cov = ev.get('coverage', {})
    out.append('| %s | %d / %d / %d | %s | %s | %s | %ss |' % (pid, nu, nb, nl, ', '.join('`%s`' % f for f in fns) or '-', cov.get('discharged', '?'),
               (cov.get('bounded') or {}).get('passed', '?'), ev.get('wall_s', '?')))
out.append('')
out.append('Bounds of the bounded stand-ins (never counted as proved):')
out.append('')
for pid in pids:
    m = load(pid)
    if not m: continue
    bs = sorted(set((g.get('bound') or g.get('bound_note') or 'unwind %s' % g.get('unwind')) for g in m.GROUPS if g.get('bounded')))
    if bs: out.append('- %s: %s' % (pid, '; '.join(bs)))
out.append('')
out.append('Seeded changes (written by sub-agents that saw only the property text; confirmed in a scratch worktree: applies, builds, suite passes, demo fails with / passes without) and what catches them:')
out.append('')
out.append('| seed | confirmed | caught by (first failing obligation) |')
out.append('|---|---|---|')
det = {}
try: det = json.load(open(os.path.join(V, 'seeded', 'detections.json')))
except Exception: pass
for d in sorted(glob.glob(os.path.join(V, 'seeded', '*', 'meta.json'))):
    mj = json.load(open(d)); name = os.path.basename(os.path.dirname(d))
    out.append('| %s | %s | %s |' % (name, 'yes' if mj.get('confirmed') else 'no (%s)' % (mj.get('note') or mj.get('suite_failed_other_than_flaky') or 'see meta.json'), det.get(name, '?')))
out.append('')
out.append('Own mutants kept as a self-test of the specifications (`spec/<id>/mutants/*.diff`, all caught) and semantically equivalent changes that must stay quiet (`spec/<id>/equivalent/*.diff`, all pass):')
out.append('')
for pid in pids:
    mu = sorted(os.path.basename(f)[:-5] for f in glob.glob(os.path.join(V, 'spec', pid, 'mutants', '*.diff')))
    eq = sorted(os.path.basename(f)[:-5] for f in glob.glob(os.path.join(V, 'spec', pid, 'equivalent', '*.diff')))
    if mu or eq: out.append('- %s: mutants %s%s' % (pid, ', '.join(mu) or '-', ('; equivalent: ' + ', '.join(eq)) if eq else ''))
text = '\n'.join(out)
p = os.path.join(V, 'DESIGN.md'); s = open(p).read()
a, b = '<!-- AUTOGEN:tables -->', '<!-- /AUTOGEN:tables -->'
if a in s and b in s:
    s = s[:s.index(a) + len(a)] + '\n' + text + '\n' + s[s.index(b):]
    open(p, 'w').write(s); print('DESIGN.md tables regenerated')
else:
    print(text)
