#!/bin/bash
# tools/mutest.sh <Cxx> <patch>...   apply each patch to /repo, run the quick check, undo.
# MUTEST_REPLAY=1 keeps counterexample extraction and native replay (slow); default is detection only.
pid=$1; shift
for p in "$@"; do p=$(realpath "$p")
  git -C /repo apply "$p" || { echo "APPLY-FAILED $p"; continue; }
  cp /verif/evidence/$pid.json /tmp/evidence_$pid.keep 2>/dev/null
  if [ -n "$MUTEST_REPLAY" ]; then out=$(/verif/check $pid quick 2>&1); rc=$?; else out=$(VERIF_NO_REPLAY=1 /verif/check $pid quick 2>&1); rc=$?; fi
  git -C /repo checkout -- .
  cp /tmp/evidence_$pid.keep /verif/evidence/$pid.json 2>/dev/null  # evidence files describe the unchanged tree only
  echo "== $(basename $p): exit=$rc"; echo "$out" | grep -E '^(VIOLATION|UNDECIDED|KNOWN)' | head -5
done
