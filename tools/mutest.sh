#!/bin/bash
# tools/mutest.sh <Cxx> <patch>...   apply each patch to /repo, run the quick check, undo.
pid=$1; shift
for p in "$@"; do p=$(realpath "$p")
  git -C /repo apply "$p" || { echo "APPLY-FAILED $p"; continue; }
  out=$(/verif/check $pid quick 2>&1); rc=$?
  git -C /repo checkout -- .
  echo "== $(basename $p): exit=$rc"; echo "$out" | grep -E '^(VIOLATION|UNDECIDED|KNOWN)' | head -5
done
