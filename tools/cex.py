#!/usr/bin/env python3
"""tools/cex.py <Cxx> <group> <obligation-substring> [filter-regex]: print the last value of every variable in the counterexample"""
import sys, re, tempfile, shutil, os
sys.path.insert(0, os.path.dirname(os.path.abspath(__file__)))
import prove
pid, gname, sub = sys.argv[1:4]
flt = re.compile(sys.argv[4]) if len(sys.argv) > 4 else None
specdir, mod = prove.load_spec(pid)
sc = tempfile.mkdtemp(prefix='cex_')
try:
    prove.do_weave(specdir, mod, sc, getattr(mod, 'STACK', prove.DEFAULT_STACK))
    groups = []
    for g in mod.GROUPS:
        if g.get('kind') == 'lemmas':
            src = open(os.path.join(specdir, g['tu'])).read()
            for m in re.finditer(r'^void\s+(lemma_\w+)\s*\(void\)', src, re.M):
                e = dict(g); e['name'] = '%s.%s' % (g['name'], m.group(1)); e['harness'] = m.group(1); e['mode'] = 'H'; groups.append(e)
        else:
            groups.append(g)
    g = [g for g in groups if g['name'] == gname][0]
    r = prove.run_group(pid, specdir, g, sc, 'quick', prove.DEFAULT_STACK)
    cand = [o for o in r['obligations'] if o['status'] == 'FAILURE' and sub in (o['name'] + ' ' + o['description'])]
    if not cand:
        print('no failing obligation matches; failing:', [o['key'] for o in r['obligations'] if o['status'] == 'FAILURE'], r['error']); sys.exit(1)
    r = prove.run_group(pid, specdir, g, sc, 'quick', prove.DEFAULT_STACK, want_trace=cand[0]['name'])
    tr = [o for o in r['obligations'] if o.get('trace')][0]['trace']
    print('obligation:', cand[0]['key'])
    last, order = {}, []
    for st in tr:
        if st.get('stepType') != 'assignment' or st.get('hidden'):
            continue
        lhs = st.get('lhs', '')
        if lhs.startswith('__CPROVER') or 'return_value' in lhs or lhs.startswith('tmp_') or 'contracts' in lhs:
            continue
        fn = st.get('sourceLocation', {}).get('function', '')
        key = lhs
        v = st.get('value', {})
        val = v.get('data', v.get('name'))
        if key in last:
            order.remove(key)
        last[key] = '%-40s = %-24s (%s:%s)' % (lhs, val, fn, st.get('sourceLocation', {}).get('line'))
        order.append(key)
    for k in order:
        if flt is None or flt.search(k):
            print(last[k])
finally:
    shutil.rmtree(sc, ignore_errors=True)
