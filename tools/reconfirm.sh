#!/bin/bash
# tools/reconfirm.sh <seed-name>...   re-runs the confirmation of seeds already stored under /verif/seeded (serially: test_io binds a fixed TCP port)
for name in "$@"; do
  pid=${name%%-*}
  tmp=/tmp/reconf_src_$name; rm -rf $tmp; cp -r /verif/seeded/$name $tmp; rm -f $tmp/meta.json $tmp/confirm.log $tmp/ctest.log
  bash /verif/tools/confirm_seed.sh $pid $tmp $name > /dev/null 2>&1
  rm -rf $tmp
  python3 -c "import json; m=json.load(open('/verif/seeded/$name/meta.json')); print('$name', m['confirmed'], m['suite_summary'], m['suite_failed_other_than_flaky'])"
done
