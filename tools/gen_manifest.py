#!/usr/bin/env python3
"""Writes MANIFEST.json from the table below + which spec/<id>/groups.py exist."""
import json, os
V = os.path.dirname(os.path.dirname(os.path.abspath(__file__)))
props = [json.loads(l) for l in open(os.path.join(V, 'properties.jsonl'))]
TEXT = {
 'C18': dict(
   text='Unbounded rely/guarantee proof on the real fiber_spinlock_lock/trylock/unlock: CBMC code contracts enforced with goto-instrument --dfcc on the woven source (an adversarial interference point before every shared access, step monitor classifying every write as TAKE or REL), spin loop closed by a loop contract, plus a bit-vector lemma layer (actions preserve the invariant, guarantee inside rely, rely transitive, invariant implies mutual exclusion / FIFO / trylock-only-on-free) over all 2^32 x 2^32 lock words including wrap-around.',
   note='Sequential consistency; CAS modelled strong; capacity < 2^32-1 outstanding tickets; termination of the spin loop not proved; fiber_manager_get by contract.',
   technique='CBMC function+loop contracts (DFCC) on woven real code, rely/guarantee ghost state, SAT lemmas', ref='5 C18, Appendix A.1'),
 'C03': dict(
   text='Unbounded rely/guarantee proof on the real fiber_mutex_lock/trylock/unlock_internal/unlock: DFCC-enforced contracts over ghost (own, announced waiters W, hand-off in transit X) with counter = 1 - own - W; every counter write classified FAST/ANNOUNCE/FREE/HANDOFF by the step monitor; contended unlock proved to perform exactly one hand-off and exactly one wake(1); trylock proved never to park; lemma layer proves the actions inductive, inside the rely, and that INV implies mutual exclusion, no waiter on a free mutex, contended unlock is a hand-off.',
   note='Park/unpark (fiber_manager_wait_in/wake_from_mpsc_queue, fiber_yield) by contract (trusted here, enforced under C01); SC; visibility of critical-section writes is SC-trivial (memory orders not checked semantically); capacity < 2^30 waiters.',
   technique='CBMC function contracts (DFCC) on woven real code, rely/guarantee ghost counters, SAT lemmas', ref='5 C03'),
 'C07': dict(
   text='Unbounded rely/guarantee proof on the six real rwlock functions: DFCC-enforced contracts, each CAS-retry loop closed by a loop contract, adversarial interference (any state word satisfying the invariant) before every access; the step monitor classifies every successful CAS as direct acquire / queue / plain release / grant-one-writer / grant-all-readers and checks its guard on the value the CAS replaced; unlock proved to issue exactly one wake on the right list with exactly the granted count; try variants proved never to queue or park; lemma layer (all 2^64 words): actions inductive, inside rely, writer exclusive, readers share, nobody queued on a free lock, release admits one writer or all readers; bit-field layout lemma.',
   note='Park/unpark by contract (trusted here, enforced under C01); SC; 21-bit field capacity; termination of CAS retry loops not proved.',
   technique='CBMC function+loop contracts (DFCC) on woven real code, rely/guarantee over the packed state word, SAT lemmas', ref='5 C07'),
 'C06': dict(
   text='Unbounded rely/guarantee proof on the real fiber_semaphore_wait/trywait/post_internal/post: DFCC-enforced contracts, the trywait CAS loop and both nested retry loops of post closed by loop contracts, interference before every access; the step monitor classifies each counter write (direct admission / announce / post-CAS on a non-negative counter / compensating increment after a pop on a negative counter); post proved to deliver its unit exactly once; lemma layer proves the conservation law S + max(c,0) + in-flight = init + P inductive for two arbitrary actors and derives no over-admission, no lost post, quiescent value.',
   note='Park/unpark (mpmc variant) by contract (trusted here, enforced under C01); SC; capacity 2^30; termination of retry loops not proved.',
   technique='CBMC function+loop contracts (DFCC) on woven real code, rely/guarantee ghost counters, SAT lemmas', ref='5 C06, Appendix A.2'),
 'C12': dict(
   text='Contract proof on the real fiber_barrier_wait (DFCC): one arrival per call, the serial branch wakes exactly count-1 once and never parks, every other arrival parks exactly once and returns only when the round is full (given the park contract); for symbolic count plus, for concrete counts 1..6 (quick) and 7..33 (thorough), all 2^64 arrival numbers: exactly the arrival completing the round is told SERIAL. Protocol lemma (which entries the serial fiber can pop) proved in the restricted form (no re-entry during the wake loop); the unrestricted lemma fails on the pinned tree: known finding D4 with a native witness.',
   note='Park/unpark by contract; the park contract (grant issued by my round\'s serial fiber) holds only under the twin restriction - D4; symbolic-count modulo cross-check infeasible for SAT (concrete counts instead, labelled); exactly count participants.',
   technique='CBMC function contracts (DFCC) on woven real code, protocol lemma, concrete-count instances for the modulo clause', ref='5 C12, 9 D4'),
 'C05': dict(
   text='Unbounded rely/guarantee proof on the real fiber_cond_wait/signal/broadcast (DFCC contracts, interference before every access): wait registers (count+1) while still holding the caller mutex, parks exactly once through the deferred-unlock park, returns with the mutex re-acquired; signal under the internal mutex claims exactly one registered waiter and issues exactly one wake(1) or leaves the count as found (decrement/undo pair); broadcast takes all registered waiters atomically and issues exactly one wake(k); lemma layer: actions inductive, inside rely, signal releases one iff one is registered, broadcast releases all, nobody released without a claim.',
   note='fiber_mutex_lock/unlock by the C03 contracts; park-and-unlock and wake by contract (trusted here, enforced under C01: the mutex is released only after enqueue + context save); SC; capacity 2^30.',
   technique='CBMC function contracts (DFCC) on woven real code, rely/guarantee ghost counters, SAT lemmas', ref='5 C05'),
 'C17': dict(
   text='Unbounded rely/guarantee proof on the real work_queue_push/work_queue_get_work (DFCC contracts, the worker retry loop closed by a loop contract, interference before every access incl. the split non-atomic out_count update): in_count = out_count + uncounted + retiring + queued + pending; push told START_WORKING exactly when its increment moved in_count 0 -> 1; get_work hands out exactly one popped item or reports EMPTY exactly when its atomic subtract drained in_count to 0 (then nothing announced is left unhanded); lemma layer: actions inductive, one worker at a time, EMPTY only when all announced items were handed out, never an item queued without an active worker.',
   note='mpsc_fifo_push/trypop by the C15 contracts; single consumer = the elected worker; SC; counters below 2^58.',
   technique='CBMC function+loop contracts (DFCC) on woven real code, rely/guarantee ghost counters, SAT lemmas', ref='5 C17'),
 'C16': dict(
   text='Rely/guarantee refinement proof on the real lockfree_ring_buffer_trypush/trypop (woven header inlines) against the four-action system CLAIM_W/WRITE/CLAIM_R/CLEAR over one symbolic observed absolute index (any index, any of 2^62 values, index & mask wrap included): adversarial interference (any high/low/slot contents satisfying the invariant and what this operation has read) before every access; read hooks record facts (value of low/high/slot seen), the step monitor checks each CAS against them (claim only from the value read, slot seen empty with room left / slot seen full below a high value read earlier), that a write lands only on the claimed slot, never on an occupied slot, never wipes another index; failure only for a stated reason (slot busy, looked full/empty, CAS lost) and without effect; popped value = the value pushed for that index. Capacity-independent lemma layer (size = 2^p, p <= 31): every step of another operation, reads included, preserves the observed-index invariant, establishes/keeps its own knowledge and never invalidates mine (so the rely assumed in the refinement is exactly what verified code can do); a write never lands on an occupied cell; never more than size items; popped value is the pushed one.',
   note='Refinement groups are bounded in capacity (labelled bounded, not counted as proved): capacity symbolic in 2^1..2^4 (quick) / 2^1..2^6 (thorough) over a fixed backing store (larger capacities not covered: CBMC array post-processing); SC; indices below 2^62; blocking wrappers not separately proved.',
   technique='CBMC harness-mode contract proof on woven real code, rely/guarantee with symbolic observer index and read hooks', ref='5 C16, Appendix A.4'),
 'C10': dict(
   text='Unbounded contract proof on the real fiber_scheduler_schedule/fiber_scheduler_next (DFCC, the pop loop of next closed by a loop contract, thieves may take from the top of either deque at every access) with a ranking ghost for one observed ready fiber X: schedule() of another fiber never increases the number of owner pops that precede X while X sits in the deque being drained (at most +1 while X sits in store_to), and every next() that hands out another fiber strictly decreases it; hence X is bypassed at most len(schedule_from)+len(store_to) times however long the others keep yielding. On the pinned tree the schedule() obligation failed (D1, native witness: three yielding fibers on one kernel thread, runs 0 0 100000); repaired by a one-token fix commit in /repo and recorded as fixed.',
   note='Deque operations by owner-side contracts (enforced under C02); scheduler used only by its own kernel thread; N-thread rescue by stealing (load_balance) not modelled - the 1-thread bound does not depend on it; SC.',
   technique='CBMC function+loop contracts (DFCC) on woven real code, ranking ghost for an observed fiber', ref='5 C10, 9 D1'),
 'C08': dict(
   text='Contract proof over all descriptor values, flag states, sizes and message flags on the 15 real shims of src/fiber_io.c (read readv recv recvfrom recvmsg write writev send sendto sendmsg accept connect close fcntl ioctl + should_block, setup_socket) against an abstract kernel behind the fibershim_* pointers (any POSIX-allowed result) and event-layer contracts; retry loops closed by loop contracts: every table access in bounds for negative / out-of-range descriptors; invalid descriptor = kernel error return, no wait; arguments forwarded, result of the last kernel call returned, no kernel call after data moved; blocking mode never returns EAGAIN unless closed meanwhile; O_NONBLOCK/FIONBIO/MSG_DONTWAIT never wait; waits for the right direction; close detaches waiters once and clears flags. Three genuine defects found on the pinned tree (D2a out-of-bounds on invalid descriptors, D2b non-blocking descriptors still waited, D2c accept returned EAGAIN to blocking callers), each reproduced natively, fixed by its own fix: commit and recorded as fixed.',
   note='Kernel behaviour abstracted (any POSIX-allowed result; descriptors outside the table fail with EBADF; accept returns descriptors inside the table); fiber_wait_for_event / fiber_fd_closed by contract; blocking mode of the observed descriptor not changed concurrently; readiness delivery by epoll not modelled (liveness of the wake-up is out of reach).',
   technique='CBMC harness-mode contract proof with loop contracts on woven real code, abstract kernel stubs, all-int descriptor quantification', ref='5 C08, 9 D2a-c'),
 'C09': dict(
   text='Contract proof on the real fiber_sleep (all uint32 seconds/useconds, any tick count): the published node has wake_time >= tick-count-under-lock + seconds*1000 + ceil(useconds/1000) without wrap-around, is complete (waiter set, fiber WAITING) and in the tree before the switch, everything under sleep_spinlock which is released only through spinlock_to_unlock; the libc shims sleep/usleep/nanosleep never hand fiber_sleep a shorter duration; fiber_fd_closed is memory-safe for every int descriptor. Bounded stand-in through the real fiber_event_wake_sleepers + waiter_insert + waiter_remove_less_than for every tree of <= 3 sleepers (4 thorough), symbolic keys and clock: only sleeping fibers are scheduled, each once, only after their tick has passed, every due one is woken, and - with a scheduler contract that releases the sleeper\'s stack-resident node - the waker never touches a node after scheduling its fiber. Two genuine defects found on the pinned tree (D3a use of the node after scheduling, D3b 32-bit duration overflow), fixed by fix: commits and recorded as fixed.',
   note='Tick >= 1 ms (it is 5 ms); tick counter < 2^62; nanosleep tv_sec fits uint32; spinlock/yield/scheduler by contract; BST induction out of reach (tree-level clauses bounded, labelled); fiber_sleep proved with waiter_insert on an empty tree (the arithmetic is independent of the tree); the arithmetic obligation needs the CaDiCaL back end (MiniSat times out).',
   technique='CBMC harness-mode contract proof on woven real code (CaDiCaL for the duration arithmetic), bounded stand-in for the sleeper tree', ref='5 C09, 9 D3a D3b'),
 'C15': dict(
   text='Rely/guarantee refinement proofs on the real mpsc_fifo_push/trypop and spsc_fifo_push/trypop (woven header inlines) over a pool of real node objects in their roles (stub, successor, my node, previous tail, later node) with interference before every access (other producers swap the tail and link, the consumer advances): the consumer writes only head (to the LINKED successor, after having seen the link) and the data field of the node it takes out, returns the old stub carrying the next element\'s data, or NULL having seen the stub\'s next NULL with nothing changed; a producer terminates its node before it becomes reachable, swaps the tail once and links exactly the node the swap returned, once. Relaxed MPSC: push goes to the producer\'s own sub-queue; trypop tries the sub-queues round-robin from counter % n, each at most once, advances the counter by the number tried, and reports empty only after every sub-queue was tried (concrete n, all 2^64 counter values).',
   note='Single consumer / single producer per SPSC queue (tokens assumed); SC; the order properties (per-producer FIFO, completed-before) follow from "sequence number = swap order" and the two contracts by inspection (no separate lemma file); relaxed MPSC instances n in {1,2,3,4} quick, {5,6,7,12} thorough (labelled bounded).',
   technique='CBMC harness-mode refinement on woven real code with role pools of real node objects, rely/guarantee step monitor', ref='5 C15'),
}
NOT_YET = 'check not built yet at this commit (DESIGN.md section 5 describes the planned contracts)'
checks, na = [], []
for p in props:
    pid = p['id']
    if os.path.exists(os.path.join(V, 'spec', pid, 'groups.py')) and pid in TEXT:
        t = TEXT[pid]
        checks.append(dict(
            property_id=pid,
            quick_cmd='./check %s quick' % pid,
            thorough_cmd='./check %s thorough' % pid,
            evidence_file='/verif/evidence/%s.json' % pid,
            replay_cmd_template='cat {path}',
            engine='cbmc-contracts',
            level_claimed=dict(category=t.get('category', 'proof'), text=t['text'], design_ref=t['ref']),
            level_note=t['note'], technique=t['technique']))
    else:
        na.append(dict(property_id=pid, reason=TEXT.get(pid, {}).get('na', NOT_YET)))
m = dict(
    version=1,
    setup_cmd='./tools/setup.sh',
    hooks=dict(guard='LIBFIBER_VERIF', enable='no source hooks: the verification build weaves a scratch copy of the functions under contract on every run (tools/weave.py); /repo is compiled unmodified',
               baseline_off_cmd='cmake -G Ninja -B /repo/_build -S /repo && cmake --build /repo/_build && ctest --test-dir /repo/_build -j8 --timeout 900',
               source_commits=[], add_only=True),
    engines=[dict(name='cbmc-contracts', path='/verif/tools/prove.py', serves_properties=[c['property_id'] for c in checks],
                  kind_free_text='contract-based deductive verification: clang-AST weaver + goto-cc + goto-instrument (DFCC function contracts, loop contracts) + cbmc 6.11 SAT back end; native replay of counterexample tapes with gcc/ASan')],
    checks=checks,
    not_applicable=na,
    notes='Fix commits in /repo (unguarded, see known_findings.jsonl): 8370b08 (D1, C10), 20d019e (D2a, C08), cae670e (D2b, C08), 5c5f112 (D2c, C08), 9b8a4ff (D3a, C09), e87fe6a (D3b, C09). See DESIGN.md. Exit codes of ./check: 0 held (KNOWN-FINDING lines possible), 1 VIOLATION, 2 undecided (tool limit, never a verdict).')
json.dump(m, open(os.path.join(V, 'MANIFEST.json'), 'w'), indent=1)
print('claimed', [c['property_id'] for c in checks], 'not_applicable', len(na))
