#!/bin/bash
# tools/mkmut.sh <Cxx> <name> <file-in-repo> <old> <new>   -> spec/<Cxx>/mutants/<name>.diff (repo left clean)
set -e
mkdir -p /verif/spec/$1/mutants
cd /repo
python3 - "$3" "$4" "$5" <<'PY'
import sys
f,old,new=sys.argv[1],sys.argv[2],sys.argv[3]
s=open(f).read(); n=s.count(old)
assert n==1,(old,n)
open(f,'w').write(s.replace(old,new))
PY
git diff > /verif/spec/$1/mutants/$2.diff
git checkout -- .
