#!/usr/bin/env python3
"""tools/uncovered.py - functions defined in the files the properties anchor that no obligation group names (supporting sweep, not a check).
A function is 'named' when it occurs in a group's functions=[...] or in a weave fns=[...] list of some spec/Cxx/groups.py."""
import json, re, os, glob
V = os.path.dirname(os.path.dirname(os.path.abspath(__file__)))
REPO = os.environ.get('VERIF_REPO', '/repo')
cov = set()
for g in glob.glob(V + '/spec/C*/groups.py'):
    s = open(g).read()
    for pat in (r"functions=\[([^\]]*)\]", r"fns=\[([^\]]*)\]", r"FNS = \[([^\]]*)\]"):
        for m in re.finditer(pat, s):
            cov.update(re.findall(r"'([^']+)'", m.group(1)))
files = set()
for l in open(V + '/properties.jsonl'):
    files.update(json.loads(l)['anchors'].get('files', []))
for f in sorted(files):
    p = os.path.join(REPO, f)
    if not os.path.exists(p):
        continue
    fns = re.findall(r"^(?:static\s+)?(?:inline\s+)?[A-Za-z_][\w\s\*]*?\b([a-z_][a-z0-9_]+)\s*\([^;{]*\)\s*\{", open(p).read(), re.M)
    miss = [x for x in dict.fromkeys(fns) if x not in cov and x not in ('if', 'while', 'for', 'switch', 'main')]
    if miss:
        print(f, '->', ' '.join(miss))
