#!/bin/bash
# tools/runall.sh [quick|thorough]  — run every claimed check on the unchanged tree (refreshes the evidence files)
cd "$(dirname "$0")/.."
tier=${1:-quick}
for p in $(python3 -c "import json; print(' '.join(c['property_id'] for c in json.load(open('MANIFEST.json'))['checks']))"); do
  ./check $p $tier > /tmp/runall_$p.log 2>&1; rc=$?
  echo "$p exit=$rc $(tail -1 /tmp/runall_$p.log)"
done
python3-vt - <<'PY'
import json,jsonschema,glob
sch=json.load(open('/root/.vp/EVIDENCE.schema.json'))
for f in sorted(glob.glob('evidence/*.json')):
    e=json.load(open(f)); jsonschema.validate(e,sch)
    c=e['coverage']; assert c['obligations']==c['discharged'], (f,c['obligations'],c['discharged'])
print('evidence files valid; obligations == discharged everywhere')
PY
