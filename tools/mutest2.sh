#!/bin/bash
# tools/mutest2.sh <Cxx> <patch>...   like mutest.sh but on a scratch copy of /repo's sources (VERIF_REPO): /repo is never touched, so
# several can run at once.  Detection only (no replay); evidence and replays go to the scratch directory.  KEEP=1 keeps the scratch.
pid=$1; shift
for p in "$@"; do p=$(realpath "$p")
  d=$(mktemp -d /tmp/mt2_${pid}_XXXX)
  rsync -a --exclude _build --exclude .git /repo/ $d/repo/
  ( cd $d/repo && patch -p1 -s -i "$p" ) || { echo "APPLY-FAILED $p"; rm -rf $d; continue; }
  out=$(VERIF_REPO=$d/repo VERIF_EVIDENCE_DIR=$d/ev VERIF_REPLAY_DIR=$d/rp VERIF_NO_REPLAY=${MUTEST2_NO_REPLAY-1} /verif/check $pid quick $MUTEST_FLAGS 2>&1); rc=$?
  echo "== $(basename $(dirname $p))/$(basename $p): exit=$rc"; echo "$out" | grep -E '^(VIOLATION|UNDECIDED|KNOWN)' | head -${LINES_MAX:-4} | cut -c1-260
  [ -n "$KEEP" ] && echo "scratch: $d" || rm -rf $d
done
