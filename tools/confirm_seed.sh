#!/bin/bash
# tools/confirm_seed.sh <Cxx> <change-dir> <seed-name>
# Confirms a seeded change in a scratch worktree: patch applies, builds, suite passes, demo fails with / passes without.
# Writes /verif/seeded/<seed-name>/{patch.diff,demo files,meta.json,confirm.log}
pid=$1; src=$(realpath $2); name=$3
out=/verif/seeded/$name; mkdir -p $out
wt=/tmp/confirm_$name; log=$out/confirm.log; : > $log
git -C /repo worktree remove --force $wt >/dev/null 2>&1; rm -rf $wt
git -C /repo worktree add -q --detach $wt HEAD || exit 2
cp $src/patch.diff $out/; for f in $src/*; do case $(basename $f) in *.log|_build|build*) ;; *) cp -r $f $out/ 2>/dev/null;; esac; done
cd $wt
# demo on the clean tree
( bash $out/run.sh $wt ) >>$log 2>&1; demo_clean=$?
rm -rf $wt/_build $wt/_demo* 
git -C $wt checkout -q -- . ; git -C $wt clean -qfd
git -C $wt apply $out/patch.diff >>$log 2>&1; applies=$?
cmake -G Ninja -B $wt/_build -S $wt -DFIBER_RUN_TESTS_WITH_BUILD=OFF >>$log 2>&1 && cmake --build $wt/_build >>$log 2>&1; builds=$?
ctest --test-dir $wt/_build -j6 --timeout 900 > $out/ctest.log 2>&1; 
failed=$(grep -E '^\s*[0-9]+ - fibertest' $out/ctest.log | grep -v test_semaphore | sed 's/^ *//' | tr '\n' ';')
summary=$(grep -E 'tests passed|tests failed' $out/ctest.log | head -1)
( bash $out/run.sh $wt ) >>$log 2>&1; demo_patched=$?
cd /; git -C /repo worktree remove --force $wt; rm -rf $wt
python3 - <<PY
import json
json.dump(dict(property="$pid", seed="$name", patch_applies=($applies==0), builds=($builds==0), suite_summary="$summary".strip(),
  suite_failed_other_than_flaky="$failed", demo_exit_clean=$demo_clean, demo_exit_patched=$demo_patched,
  confirmed=($applies==0 and $builds==0 and "$failed"=="" and $demo_clean==0 and $demo_patched!=0),
  ran="tools/confirm_seed.sh: scratch worktree of /repo HEAD; demo run.sh on clean tree; git apply patch.diff; cmake+ninja build; ctest -j6; demo run.sh on patched tree"),
  open("$out/meta.json","w"), indent=1)
PY
cat $out/meta.json
