#!/usr/bin/env python3
"""Interference weaver (DESIGN.md section 3.1).

Takes function names and the /repo file that defines them, and writes a copy of
that file in which, inside those functions only,

  (a) every evaluation of an lvalue designating non-local storage (read,
      assignment target, compound-assignment / ++ / -- target) `E` becomes
          (*VERIF_PTR(n, &(E)))
  (b) every call `f(args)` of a non-builtin function becomes
          (verif_sync(n), f(args))
  (b') every loop gets `verif_loop_sync` before it, at the end of its body and before each `continue`
  (c) every `return E;` becomes
          return ({ T verif_rv = (E); verif_sync(n); verif_rv; });   (T = the declared return type)
      every `return;` becomes `{ verif_sync(n); return; }` and a void function
      body gets `verif_sync(n);` before its closing brace.

All edits are pure insertions, bracketed by the comment markers /*<V*/ ... /*V>*/
so that removing everything between the markers gives back the original bytes
(checked on every run).  Atomic operations (atomic_*, __atomic_*, __sync_*) are
not touched here; the macro shim in rt/verif_atomic_shim.h puts a point in
front of each of them.

Exit status: 0 ok, 2 anything else (never a verdict about the code).
"""
import argparse
import json
import os
import re
import subprocess
import sys

NOSYNC = re.compile(r'^(__builtin_|__atomic_|__c11_atomic_|__sync_|cpu_relax$|write_barrier$|'
                    r'load_load_barrier$|store_load_barrier$|assert$|__assert|verif_)')
PRE, POST = '/*<V*/', '/*V>*/'


class WeaveError(Exception):
    pass


def parse_objs(text):
    dec = json.JSONDecoder()
    i, out = 0, []
    n = len(text)
    while True:
        while i < n and text[i].isspace():
            i += 1
        if i >= n:
            break
        o, i = dec.raw_decode(text, i)
        out.append(o)
    return out


class LocResolver:
    """clang's JSON dumper prints "file" only when it differs from the last
    location printed; replay that while walking in document order."""

    def __init__(self):
        self.file = None

    def bare(self, l):
        if 'file' in l:
            self.file = l['file']
        if 'offset' in l:
            l['_file'] = self.file

    def loc(self, l):
        if not isinstance(l, dict):
            return
        if 'spellingLoc' in l or 'expansionLoc' in l:
            for k in l:  # document order
                if k in ('spellingLoc', 'expansionLoc'):
                    self.bare(l[k])
        else:
            self.bare(l)

    def walk(self, n):
        if isinstance(n, dict):
            for k, v in n.items():
                if k == 'loc':
                    self.loc(v)
                elif k == 'range':
                    for kk in v:
                        if kk in ('begin', 'end'):
                            self.loc(v[kk])
                elif k == 'inner':
                    for c in v:
                        self.walk(c)


def file_off(l, path, end=False):
    """(offset) of a loc in `path`, or None when the token is not literally in
    that file (macro body).  Macro *arguments* are literally in the file."""
    if 'spellingLoc' in l or 'expansionLoc' in l:
        sp = l.get('spellingLoc', {})
        ex = l.get('expansionLoc', {})
        # token spelled in the file as a macro argument
        if sp.get('_file') == path and (sp.get('isMacroArgExpansion') or ex.get('isMacroArgExpansion')):
            o = sp['offset']
            return o + (sp.get('tokLen', 0) if end else 0)
        return None
    if l.get('_file') != path or 'offset' not in l:
        return None
    return l['offset'] + (l.get('tokLen', 0) if end else 0)


def is_local_lvalue(e, locals_):
    """True iff the lvalue expression designates (part of) an automatic variable
    of the woven function."""
    k = e.get('kind')
    if k == 'ParenExpr':
        return is_local_lvalue(e['inner'][0], locals_)
    if k == 'DeclRefExpr':
        d = e.get('referencedDecl', {})
        return d.get('id') in locals_
    if k == 'MemberExpr':
        if e.get('isArrow'):
            return False
        return is_local_lvalue(e['inner'][0], locals_)
    if k == 'ArraySubscriptExpr':
        base = e['inner'][0]
        # a[i] with `a` a local array decays through ArrayToPointerDecay
        while base.get('kind') in ('ImplicitCastExpr', 'ParenExpr'):
            if base.get('kind') == 'ImplicitCastExpr' and base.get('castKind') != 'ArrayToPointerDecay':
                return False
            base = base['inner'][0]
        return is_local_lvalue(base, locals_)
    if k == 'CompoundLiteralExpr':
        return True
    return False


def collect_locals(fn):
    ids = set()
    statics = set()

    def rec(n):
        if n.get('kind') in ('VarDecl', 'ParmVarDecl'):
            if n.get('storageClass') == 'static' or n.get('tls'):
                statics.add(n['id'])
            else:
                ids.add(n['id'])
        for c in n.get('inner', []) or []:
            rec(c)
    rec(fn)
    return ids - statics


def is_const(decl):
    qt = decl.get('type', {}).get('qualType', '')
    return qt.startswith('const ') and '*' not in qt or qt.rstrip().endswith('const') or '[' in qt


def shimmed_names():
    hdr = os.path.join(os.path.dirname(os.path.dirname(os.path.abspath(__file__))), 'rt', 'verif_atomic_shim.h')
    return set(re.findall(r'^#define\s+(\w+)\(', open(hdr).read(), re.M))


def weave_function(fn, path, src, edits, counter, census, loops=None, split_rmw=True, stub_calls=()):
    body = [c for c in fn.get('inner', []) if c.get('kind') == 'CompoundStmt']
    if not body:
        raise WeaveError('no body for %s' % fn.get('name'))
    body = body[0]
    fb = file_off(body['range']['begin'], path)
    fe = file_off(body['range']['end'], path, end=True)
    if fb is None or fe is None:
        raise WeaveError('body of %s is not in %s' % (fn['name'], path))
    locals_ = collect_locals(fn)
    # every atomic operation in the body must be one the shim puts an interference point in front of
    body_txt = re.sub(r'/\*.*?\*/|//[^\n]*', '', src[fb:fe], flags=re.S)
    shim = shimmed_names()
    for m in re.finditer(r'\b(__sync_\w+|__atomic_\w+|__c11_atomic_\w+|atomic_\w+)\s*\(', body_txt):
        if m.group(1) not in shim:
            raise WeaveError('%s: atomic operation %s has no interference shim (rt/verif_atomic_shim.h)' % (fn['name'], m.group(1)))
    qt = fn['type']['qualType'].strip()
    # the parameter list is the last balanced parenthesis group
    d, i = 0, len(qt) - 1
    while i >= 0:
        if qt[i] == ')':
            d += 1
        elif qt[i] == '(':
            d -= 1
            if d == 0:
                break
        i -= 1
    ret_t = qt[:i].strip()
    is_void = (ret_t == 'void')
    if '(' in ret_t or '[' in ret_t:
        raise WeaveError('%s: unsupported return type %s' % (fn['name'], ret_t))
    name = fn['name']
    stats = census.setdefault(name, {'accesses': 0, 'calls': 0, 'returns': 0, 'skipped_macro_body': 0})
    loopno = [0]

    def rng(e):
        b = file_off(e['range']['begin'], path)
        en = file_off(e['range']['end'], path, end=True)
        if b is None or en is None:
            return None
        if not (fb <= b < en <= fe):
            return None
        return b, en

    def wrap_access(e, depth, rmw_stmt=None):
        if is_local_lvalue(e, locals_):
            return
        # a bit-field has no address: the interference point is put on the struct that holds it (the access is to that word)
        while e.get('kind') == 'MemberExpr' and (e.get('objectKind') == 'bitfield' or e.get('name') in BITFIELD_NAMES) and e.get('inner'):
            e = e['inner'][0]
            while e.get('kind') == 'ParenExpr' and e.get('inner'):
                e = e['inner'][0]
            rmw_stmt = None
        if e.get('kind') == 'DeclRefExpr' and e.get('referencedDecl', {}).get('kind') in ('FunctionDecl', 'EnumConstantDecl'):
            return
        r = rng(e)
        if r is None:
            # access spelled inside a macro body: only atomic macros are allowed
            stats['skipped_macro_body'] += 1
            ex = e['range']['begin'].get('expansionLoc', {})
            if ex.get('_file') == path and 'offset' in ex:
                m = re.match(r'[A-Za-z_0-9]+', src[ex['offset']:ex['offset'] + 64])
                mac = m.group(0) if m else '?'
                if not re.match(r'^(atomic_|__atomic|__sync|fiber_likely|fiber_unlikely|assert|errno$)', mac):
                    raise WeaveError('%s: shared access inside the body of macro %s — not woven' % (name, mac))
            return
        n = counter[0]
        counter[0] += 1
        stats['accesses'] += 1
        if rmw_stmt is not None and split_rmw:
            # non-atomic read-modify-write of shared memory: a second interference point between the read and the write.
            # The operation runs on a shadow copy; verif_rmw_commit (inserted after the statement) writes it back.
            qt = e.get('type', {}).get('qualType', '')
            base_t = ''
            if e.get('kind') == 'MemberExpr' and e.get('inner'):
                base_t = e['inner'][0].get('type', {}).get('qualType', '')
            if '_Atomic' not in qt and 'fiber_manager_t' not in base_t and 'struct fiber_manager' not in base_t:
                if rmw_stmt.get('_parent') != 'CompoundStmt':
                    raise WeaveError('%s: non-atomic read-modify-write of shared memory is not a statement of its own' % name)
                # end of the statement: the terminating ';' at nesting depth 0 after the lvalue (the right-hand side may
                # end inside a macro expansion, so scan the text)
                i, d = r[1], 0
                while i < fe:
                    c = src[i]
                    if c in '([{':
                        d += 1
                    elif c in ')]}':
                        d -= 1
                        if d < 0:
                            break
                    elif c == ';' and d == 0:
                        break
                    i += 1
                if i >= fe or src[i] != ';':
                    raise WeaveError('%s: cannot find the end of a read-modify-write statement' % name)
                class _M:  # noqa
                    pass
                se, m = i, _M()
                m.end = lambda: 1
                counter[0] += 1
                stats['nonatomic_rmw'] = stats.get('nonatomic_rmw', 0) + 1
                edits.append((r[0], 0, depth, PRE + '(*VERIF_RMW(%d, &(' % n + POST))
                edits.append((r[1], 1, -depth, PRE + ')))' + POST))
                edits.append((se + m.end(), 1, 20000, PRE + ' verif_rmw_commit(%d);' % (n + 1) + POST))
                return
        edits.append((r[0], 0, depth, PRE + '(*VERIF_PTR(%d, &(' % n + POST))
        edits.append((r[1], 1, -depth, PRE + ')))' + POST))

    scope = [[c.get('name') for c in fn.get('inner', []) if c.get('kind') == 'ParmVarDecl' and c.get('name') and not is_const(c)
              and '*' not in c.get('type', {}).get('qualType', '')]]  # pointer parameters keep designating the same object

    def rec(n, depth):
        k = n.get('kind')
        inner = n.get('inner', []) or []
        if k == 'CompoundStmt':
            scope.append([])
        if k == 'VarDecl' and n.get('name') and n.get('storageClass') != 'static' and not is_const(n):
            scope[-1].append(n['name'])
        if k == 'ImplicitCastExpr' and n.get('castKind') == 'LValueToRValue':
            wrap_access(inner[0], depth)
        elif k in ('BinaryOperator', 'CompoundAssignOperator') and n.get('opcode', '').endswith('=') \
                and n.get('opcode') not in ('==', '!=', '<=', '>='):
            wrap_access(inner[0], depth, n if k == 'CompoundAssignOperator' else None)
        elif k == 'UnaryOperator' and n.get('opcode') in ('++', '--'):
            wrap_access(inner[0], depth, n)
        elif k == 'CallExpr':
            callee = inner[0]
            while callee.get('kind') in ('ImplicitCastExpr', 'ParenExpr'):
                callee = callee['inner'][0]
            cname = callee.get('referencedDecl', {}).get('name') if callee.get('kind') == 'DeclRefExpr' else None
            isfn = callee.get('referencedDecl', {}).get('kind') == 'FunctionDecl'
            if not (isfn and NOSYNC.match(cname or '')):
                r = rng(n)
                if r is None:
                    ex = n['range']['begin'].get('expansionLoc', {})
                    mac = ''
                    if ex.get('_file') == path and 'offset' in ex:
                        mm = re.match(r'[A-Za-z_0-9]+', src[ex['offset']:ex['offset'] + 64])
                        mac = mm.group(0) if mm else ''
                    if mac == 'errno':   # thread-local errno: (*__errno_location()) — not shared memory
                        for c in inner:
                            if isinstance(c, dict):
                                c['_parent'] = k
                            rec(c, depth + 1)
                        return
                    raise WeaveError('%s: call of %s inside the body of macro %s — not woven' % (name, cname, mac))
                s = counter[0]
                counter[0] += 1
                stats['calls'] += 1
                edits.append((r[0], 0, depth, PRE + '(verif_sync(%d), ' % s + POST))
                edits.append((r[1], 1, -depth, PRE + ')' + POST))
                if cname in stub_calls:
                    # the callee is defined in this very file and is used by contract here: the call (not the definition) is
                    # redirected to stub_<name> (VERIF_STUB in rt/verif_atomic_shim.h)
                    if src[r[0]:r[0] + len(cname)] != cname:
                        raise WeaveError('%s: call of %s is not spelled literally' % (name, cname))
                    edits.append((r[0], 0, depth + 1, PRE + 'VERIF_STUB(' + POST))
                    edits.append((r[0] + len(cname), 1, -(depth + 1), PRE + ')' + POST))
                    stats.setdefault('stubbed_calls', []).append(cname)
        elif k == 'ReturnStmt':
            b = file_off(n['range']['begin'], path)
            if b is None or src[b:b + 6] != 'return':
                raise WeaveError('%s: return statement not literally in the file' % name)
            # end of the statement: the terminating ';' at nesting depth 0
            i, d = b + 6, 0
            while True:
                c = src[i]
                if c in '([{':
                    d += 1
                elif c in ')]}':
                    d -= 1
                elif c == ';' and d == 0:
                    break
                i += 1
            s = counter[0]
            counter[0] += 1
            stats['returns'] += 1
            if inner:
                edits.append((b + 6, 0, -10000, PRE + ' ({ %s verif_rv = (' % ret_t + POST))
                edits.append((i, 1, 10000, PRE + '); verif_sync(%d); verif_rv; })' % s + POST))
            else:
                edits.append((b, 0, -10000, PRE + '{ verif_sync(%d); ' % s + POST))
                edits.append((i + 1, 1, 10000, PRE + ' }' + POST))
        elif k in ('WhileStmt', 'ForStmt', 'DoStmt') and file_off(n['range']['begin'], path) is None:
            # a loop spelled inside a macro body (the `do { } while (0)` idiom): not woven, not numbered; a real loop hidden in a
            # macro would show up in the prover's loop census as an uncontracted loop
            stats['macro_loops'] = stats.get('macro_loops', 0) + 1
        elif k in ('WhileStmt', 'ForStmt', 'DoStmt'):
            ordinal = loopno[0]
            loopno[0] += 1
            bodystmt = inner[0] if k == 'DoStmt' else inner[-1]
            b = file_off(bodystmt['range']['begin'], path)
            be = file_off(bodystmt['range']['end'], path, end=True)
            lb = file_off(n['range']['begin'], path)
            le = file_off(n['range']['end'], path, end=True)
            if None in (b, be, lb, le) or bodystmt.get('kind') != 'CompoundStmt':
                raise WeaveError('%s: loop %d is not literally in the file or its body is not a block' % (name, ordinal))
            if k == 'DoStmt':
                m = re.match(r'\s*;', src[le:])
                if not m:
                    raise WeaveError('%s: cannot find the end of do/while loop %d' % (name, ordinal))
                le += m.end()
            # the ghost state must be up to date wherever a loop invariant is evaluated:
            # before the loop, at the end of its body, and before every `continue`
            s1 = counter[0]; counter[0] += 2
            edits.append((lb, 0, -30000, PRE + '{ verif_loop_sync(%d); ' % s1 + POST))
            edits.append((le, 1, 30000, PRE + ' }' + POST))
            edits.append((be - 1, 0, -20000, PRE + 'verif_loop_sync(%d);' % (s1 + 1) + POST))
            if k == 'DoStmt':
                # do/while: the condition runs between the end of the body and the loop head; when it says "loop again" the
                # snapshot is consumed there:  while ((C) && (verif_loop_sync(n), 1))
                cb = file_off(inner[1]['range']['begin'], path)
                ce = file_off(inner[1]['range']['end'], path, end=True)
                if cb is None or ce is None:
                    raise WeaveError('%s: condition of do/while loop %d is not literally in the file' % (name, ordinal))
                s2 = counter[0]; counter[0] += 1
                edits.append((cb, 0, -25000, PRE + '(' + POST))
                edits.append((ce, 1, 25000, PRE + ') && (verif_loop_sync(%d), 1)' % s2 + POST))
            clause = (loops or {}).get(str(ordinal))
            if clause and '$LOCALS' in clause:
                # every non-const local visible at the loop head may be assigned by the loop (keeps the frame robust against
                # harmless refactors that hoist or add locals)
                vis = [v for sc in scope for v in sc]
                clause = clause.replace('$LOCALS', ', '.join(vis) if vis else 'G')
            if clause:
                # the loop-head snapshot flag (rt/verif_point.inc): specs that opt in get it framed and pinned automatically
                clause = clause.replace('__CPROVER_assigns(', '__CPROVER_assigns(VERIF_LOOP_ASSIGNS ', 1)
                clause = clause.replace('__CPROVER_loop_invariant(', '__CPROVER_loop_invariant(VERIF_LOOP_INV && ', 1)
                edits.append((b, 0, -30000, PRE + ' ' + clause + ' ' + POST))
                stats.setdefault('loop_contracts', []).append(ordinal)
        elif k == 'ContinueStmt':
            b = file_off(n['range']['begin'], path)
            if b is None or src[b:b + 8] != 'continue':
                raise WeaveError('%s: continue not literally in the file' % name)
            m = re.match(r'continue\s*;', src[b:])
            s1 = counter[0]; counter[0] += 1
            edits.append((b, 0, -10000, PRE + '{ verif_loop_sync(%d); ' % s1 + POST))
            edits.append((b + m.end(), 1, 10000, PRE + ' }' + POST))
        elif k == 'GCCAsmStmt':
            raise WeaveError('%s: inline asm in a woven function' % name)
        for c in inner:
            if isinstance(c, dict):
                c['_parent'] = k
            rec(c, depth + 1)
        if k == 'CompoundStmt':
            scope.pop()

    rec(body, 0)
    stats['loops'] = loopno[0]
    for o in (loops or {}):
        if int(o) >= loopno[0]:
            # the code has fewer loops than the spec has loop contracts (e.g. a retry loop was turned into an `if`): there is
            # nothing to attach the contract to; the function is then verified as it stands (any other loop must have its own)
            stats.setdefault('unused_loop_contracts', []).append(int(o))
    if is_void:
        s = counter[0]
        counter[0] += 1
        edits.append((fe - 1, 0, -20000, PRE + 'verif_sync(%d);' % s + POST))
    return fb, fe


def apply_edits(src, edits):
    # at equal offsets: closers (kind 1) come before openers (kind 0);
    # openers ordered outer first (smaller depth), closers inner first.
    edits = sorted(edits, key=lambda e: (e[0], -e[1], e[2]))
    out, last = [], 0
    for off, kind, depth, text in edits:
        out.append(src[last:off])
        out.append(text)
        last = off
    out.append(src[last:])
    return ''.join(out)


def unweave(text):
    return re.sub(r'/\*<V\*/.*?/\*V>\*/', '', text, flags=re.S)


def clang_ast(repo_file, parse_file, fn, cflags):
    cmd = ['clang', '-fsyntax-only', '-w'] + cflags + ['-Xclang', '-ast-dump=json', '-Xclang',
                                                         '-ast-dump-filter=' + fn, parse_file]
    p = subprocess.run(cmd, capture_output=True, text=True)
    if p.returncode != 0:
        raise WeaveError('clang failed on %s: %s' % (parse_file, p.stderr[:2000]))
    return parse_objs(p.stdout)


BITFIELD_NAMES = set()


def collect_bitfields(path):
    """names of bit-field members declared in the file and in the repository headers next to it (clang 14's JSON dump does not mark a
    MemberExpr that designates a bit-field, and the filtered dump has no FieldDecls)"""
    import glob as _glob
    root = os.path.dirname(os.path.dirname(os.path.abspath(path)))
    for f in [path] + _glob.glob(os.path.join(root, 'include', '*.h')):
        try:
            txt = open(f).read()
        except OSError:
            continue
        for m in re.finditer(r'\b([A-Za-z_]\w*)\s*:\s*\d+\s*;', txt):
            BITFIELD_NAMES.add(m.group(1))


def weave_file(path, fns, cflags, parse_file=None, first_site=0, loops=None, split_rmw=True, stub_calls=()):
    """returns (woven_text, census).  `path` is the file holding the function
    bodies; `parse_file` a .c file that includes it (for header inlines)."""
    src = open(path).read()
    collect_bitfields(path)
    edits, census = [], {}
    counter = [first_site]
    res = LocResolver()
    for fn in fns:
        objs = clang_ast(path, parse_file or path, fn, cflags)
        found = False
        for o in objs:
            res.walk(o)
        for o in objs:
            if o.get('kind') == 'FunctionDecl' and o.get('name') == fn and \
                    any(c.get('kind') == 'CompoundStmt' for c in o.get('inner', [])):
                if file_off(o['range']['begin'], path) is None:
                    continue
                weave_function(o, path, src, edits, counter, census, (loops or {}).get(fn), split_rmw,
                               tuple(stub_calls.get(fn, ())) if isinstance(stub_calls, dict) else stub_calls)
                found = True
                break
        if not found:
            raise WeaveError('function %s not found with a body in %s' % (fn, path))
    woven = apply_edits(src, edits)
    if unweave(woven) != src:
        raise WeaveError('unweave check failed for %s' % path)
    nacc = sum(c['accesses'] for c in census.values())
    if woven.count('(*VERIF_PTR(') + woven.count('(*VERIF_RMW(') != nacc:
        raise WeaveError('site census mismatch in %s' % path)
    return woven, census, counter[0]


def main():
    ap = argparse.ArgumentParser()
    ap.add_argument('--file', required=True, help='file holding the function bodies')
    ap.add_argument('--parse', help='translation unit to parse (for header inlines)')
    ap.add_argument('--fn', action='append', required=True)
    ap.add_argument('--out', required=True)
    ap.add_argument('--first-site', type=int, default=0)
    ap.add_argument('--loops', help='JSON {function: {loop ordinal: "clauses"}}')
    ap.add_argument('cflags', nargs='*')
    a = ap.parse_args()
    try:
        loops = json.load(open(a.loops)) if a.loops else None
        woven, census, nxt = weave_file(a.file, a.fn, a.cflags, a.parse, a.first_site, loops)
    except WeaveError as e:
        print('weave: ' + str(e), file=sys.stderr)
        sys.exit(2)
    os.makedirs(os.path.dirname(a.out) or '.', exist_ok=True)
    open(a.out, 'w').write(woven)
    print(json.dumps({'file': a.file, 'out': a.out, 'census': census, 'next_site': nxt}))


if __name__ == '__main__':
    main()
