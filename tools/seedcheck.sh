#!/bin/bash
# tools/seedcheck.sh [seed-name...]   runs the quick check of each seed's property against the seeded change applied to a scratch copy of
# /repo's sources (tools/mutest2.sh: /repo itself is never touched), 4 at a time, and records the first failing obligation of each in
# seeded/detections.json ("NOT CAUGHT (exit=..)" otherwise).
cd /verif
names="$@"; [ -z "$names" ] && names=$(ls seeded | grep -E '^C[0-9][0-9]-' | grep -v -- '-postfix$')
one() {
  name=$1; pid=${name%%-*}
  out=$(LINES_MAX=1 tools/mutest2.sh $pid seeded/$name/patch.diff 2>&1)
  ex=$(echo "$out" | grep -oE 'exit=[0-9]+' | head -1)
  ob=$(echo "$out" | grep -m1 VIOLATION | sed -E 's/.*obligation="([^"]*)".*/\1/')
  echo "$name|$ex|$ob"
}
export -f one
echo $names | tr ' ' '\n' | xargs -P ${SEEDCHECK_JOBS:-4} -I{} bash -c 'one {}' > /tmp/seedcheck.raw
python3 - <<'PY'
import json,os
p='/verif/seeded/detections.json'
d=json.load(open(p)) if os.path.exists(p) else {}
for l in open('/tmp/seedcheck.raw'):
    l=l.rstrip('\n')
    if l.count('|')<2: continue
    name,ex,ob=l.split('|',2)
    d[name]=(ob if ex=='exit=1' else 'NOT CAUGHT (%s)' % ex)
    print(name, ex, ob[:110])
json.dump(d,open(p,'w'),indent=1,sort_keys=True)
PY
