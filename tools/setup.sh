#!/bin/bash
# offline setup: nothing to build; verify that the tools the checks need are present
for t in cbmc goto-cc goto-instrument clang gcc python3; do command -v $t >/dev/null || { echo "missing $t"; exit 1; }; done
python3 -c 'import json,re,concurrent.futures' || exit 1
mkdir -p /verif/evidence
echo setup-ok
